module verif

go 1.23

toolchain go1.23.5

require (
	github.com/anishathalye/porcupine v1.3.0
	github.com/cybergarage/go-redis v0.0.0
	github.com/cybergarage/go-tracing v1.1.3
	pgregory.net/rapid v1.3.0
)

require (
	github.com/cybergarage/go-logger v1.3.4 // indirect
	github.com/google/uuid v1.6.0 // indirect
)

replace github.com/cybergarage/go-redis => /repo
