#!/bin/bash
# reseed.sh [names...]: re-run the property's quick check against every kept seeded change; one line per seed.
cd /verif
names=${*:-$(ls seeded | grep -v "benign\|variants\|prompts")}
export GOFLAGS=-mod=mod GOPROXY=off GOSUMDB=off GOTOOLCHAIN=local
for name in $names; do
  src=/verif/seeded/$name
  prop=$(python3 -c "import json;print(json.load(open('$src/meta.json'))['property'])")
  d=/tmp/reseed-$$-$name
  applied=""
  # the patch was written for /repo HEAD of its time; later fix: commits may conflict with it, then the base it was
  # confirmed against is used (newest first)
  for base in HEAD beae9e9 dbb59a8 0da4da8 9a6d764; do
    git -C /repo worktree add -q --detach $d $base || continue
    if git -C $d apply $src/patch.diff 2>/dev/null || { git -C $d apply -3 $src/patch.diff 2>/dev/null && ! git -C $d diff --name-only --diff-filter=U | grep -q .; }; then applied=$base; break; fi
    git -C /repo worktree remove --force $d 2>/dev/null
  done
  tag=$(python3 -c "import hashlib;print(hashlib.sha1('$d'.encode()).hexdigest()[:8])")
  if [ -n "$applied" ]; then
    out=$(VERIF_REPO=$d VERIF_MAXVIOL=1 timeout 900 ./check $prop quick 2>&1); rc=$?
    key=$(echo "$out" | grep -a -m1 '^  key:' | cut -c1-100)
    echo "$name $prop base=$applied rc=$rc $key"
  else
    echo "$name $prop PATCH-DOES-NOT-APPLY"
  fi
  git -C /repo worktree remove --force $d 2>/dev/null
  rm -f .build/go.$tag.mod .build/go.$tag.sum .build/props.test.go.$tag.mod .build/props.race.test.go.$tag.mod
done
