#!/bin/bash
# trymut2.sh <prop> <patchfile>: apply a patch in a scratch worktree, run the quick check there, print violations, clean up.
set -u
prop=$1; patch=$2
d=/tmp/mut-$$
git -C /repo worktree add -q --detach $d HEAD || exit 9
git -C $d apply $patch || { echo "PATCH DOES NOT APPLY"; git -C /repo worktree remove --force $d; exit 8; }
(cd $d && GOFLAGS=-mod=mod GOPROXY=off GOSUMDB=off GOTOOLCHAIN=local go build ./... ) || echo "MUTANT DOES NOT BUILD"
VERIF_REPO=$d VERIF_MAXVIOL=${VERIF_MAXVIOL:-5} /verif/check $prop ${3:-quick} 2>&1 | grep -E '^VIOLATION|^  key|(quick|thorough):|BUILD|exited|KNOWN' | head -${LINES_MAX:-12}
git -C /repo worktree remove --force $d
tag=$(python3 -c "import hashlib;print(hashlib.sha1('$d'.encode()).hexdigest()[:8])"); rm -f /verif/.build/go.$tag.mod /verif/.build/go.$tag.sum /verif/.build/props.test.go.$tag.mod /verif/.build/props.race.test.go.$tag.mod
