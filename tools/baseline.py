#!/usr/bin/env python3
"""Runs the repository's test suite (guard off) and checks that every stable test of BASELINE.json passes."""
import json, os, subprocess, sys
env = dict(os.environ, GOFLAGS="-mod=mod", GOPROXY="off", GOSUMDB="off", GOTOOLCHAIN="local")
repo = sys.argv[1] if len(sys.argv) > 1 else "/repo"
p = subprocess.run(["go", "test", "-json", "-vet=off", "-count=1", "-timeout", "25m", "./..."], cwd=repo, env=env, capture_output=True, text=True)
res = {}
for line in p.stdout.splitlines():
    try:
        e = json.loads(line)
    except Exception:
        continue
    if e.get("Test") and e.get("Action") in ("pass", "fail", "skip"):
        res[e["Package"] + "::" + e["Test"]] = e["Action"]
stable = json.load(open("/root/.vp/BASELINE.json"))["stable_pass"]
bad = [t for t in stable if res.get(t) != "pass"]
print("stable tests: %d, passing: %d" % (len(stable), len(stable) - len(bad)))
for t in bad[:20]:
    print("  NOT PASSING:", t, res.get(t))
sys.exit(1 if bad else 0)
