#!/usr/bin/env python3
"""keep.py <run-replay.json> <name> <open|fixed> <commit-or-> <what> [avoid]: commit a replay as probe + known_findings entry."""
import json, os, shutil, sys
ROOT = os.path.dirname(os.path.dirname(os.path.abspath(__file__)))
src, name, status, commit, what = sys.argv[1:6]
avoid = sys.argv[6] if len(sys.argv) > 6 else ""
r = json.load(open(src))
prop = r["property"]
os.makedirs(os.path.join(ROOT, "replays", prop), exist_ok=True)
dst = os.path.join("replays", prop, name + ".json")
json.dump(r, open(os.path.join(ROOT, dst), "w"), indent=1)
kf = json.load(open(os.path.join(ROOT, "known_findings.json")))
e = {"property": prop, "status": status, "key": r["key"], "what": what, "probe": dst}
if commit != "-":
    e["commit"] = commit
if avoid:
    e["avoid"] = avoid
kf["findings"] = [f for f in kf["findings"] if f.get("probe") != dst] + [e]
json.dump(kf, open(os.path.join(ROOT, "known_findings.json"), "w"), indent=1)
print("kept", dst, r["key"])
