#!/bin/bash
# evalall.sh <dir-with-patch.diff> [props...]: apply the patch in a scratch worktree, run the baseline and every (or the given) quick check against it.
set -u
src=$1; shift
props=${*:-C01 C02 C03 C04 C05 C06 C07 C08 C09 C10 C11 C12 C13 C14 C15 C16 C17 C18 C19 C20}
export GOFLAGS=-mod=mod GOPROXY=off GOSUMDB=off GOTOOLCHAIN=local
d=/tmp/all-$$
git -C /repo worktree add -q --detach $d HEAD || exit 9
tag=$(python3 -c "import hashlib;print(hashlib.sha1('$d'.encode()).hexdigest()[:8])")
cleanup() { git -C /repo worktree remove --force $d 2>/dev/null; rm -f /verif/.build/go.$tag.mod /verif/.build/go.$tag.sum /verif/.build/props.test.go.$tag.mod /verif/.build/props.race.test.go.$tag.mod; }
trap cleanup EXIT
echo "== $src: $(python3 -c "import json;print(json.load(open('$src/meta.json')).get('what','')[:200])")"
if ! git -C $d apply $src/patch.diff 2>/dev/null; then
  if git -C $d apply -3 $src/patch.diff 2>/dev/null && ! git -C $d diff --name-only --diff-filter=U | grep -q .; then echo "(patch applied with 3-way merge)"; git -C $d reset -q; else echo "PATCH DOES NOT APPLY"; exit 8; fi
fi
(cd $d && go build ./... && go build -tags verif ./...) || { echo "DOES NOT BUILD"; exit 7; }
(cd /verif && flock /tmp/sa-test.lock python3 tools/baseline.py $d | tail -2)
for p in $props; do
  out=$(VERIF_REPO=$d VERIF_MAXVIOL=2 /verif/check $p quick 2>&1); rc=$?
  echo "$p rc=$rc $(echo "$out" | grep -a -E 'quick:' | tail -1 | cut -c1-90)"
  if [ $rc -ne 0 ]; then echo "$out" | grep -a -E '^VIOLATION|^  key|^  detail|HARNESS|BUILD|exited' | cut -c1-400 | head -8; fi
done
