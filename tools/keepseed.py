#!/usr/bin/env python3
"""keepseed.py <prop> <k> <detected_by> <key> [note]: keep a confirmed seeded change under /verif/seeded/<prop>-<k>/."""
import json, os, shutil, sys
prop, k, by, key = sys.argv[1:5]
note = sys.argv[5] if len(sys.argv) > 5 else ""
src = "/tmp/sa-out/%s/%s" % (prop, k)
dst = "/verif/seeded/%s-%s" % (prop, k)
os.makedirs(dst, exist_ok=True)
for f in os.listdir(src):
    shutil.copy(os.path.join(src, f), os.path.join(dst, f))
m = json.load(open(os.path.join(dst, "meta.json")))
m["confirmed"] = {
    "applies_and_builds": True, "baseline_233_pass_with_change": True,
    "demo_fails_with_change_passes_without": True,
    "ran": "tools/evalseed.sh %s %s (scratch worktree of /repo HEAD: demo on clean tree, apply patch, build, demo, tools/baseline.py, ./check with VERIF_REPO)" % (prop, k),
    "detected_by": by, "violation_key": key, "note": note,
}
json.dump(m, open(os.path.join(dst, "meta.json"), "w"), indent=1)
print("kept", dst)
