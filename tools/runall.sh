#!/bin/bash
# runall.sh <tier> <seed...>: run every claimed check at the given seeds, print one line per run.
tier=$1; shift
cd "$(dirname "$0")/.."
for seed in "$@"; do
  for p in C01 C02 C03 C04 C05 C06 C07 C08 C09 C10 C11 C12 C13 C14 C15 C16 C17 C18 C19 C20; do
    start=$(date +%s)
    out=$(VERIF_SEED=$seed ./check $p $tier 2>&1); rc=$?
    end=$(date +%s)
    echo "seed=$seed $p rc=$rc $((end-start))s $(echo "$out" | grep -E "$tier:" | tail -1)"
    if [ $rc -ne 0 ]; then echo "$out" | grep -v 'rapid\] draw' | cut -c1-600 | head -30; fi
  done
done
