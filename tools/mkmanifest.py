#!/usr/bin/env python3
"""Regenerates /verif/MANIFEST.json from the table below (kept here so the file stays valid and uniform)."""
import json, os, subprocess

ROOT = os.path.dirname(os.path.dirname(os.path.abspath(__file__)))

# id -> (technique, level text, level note, design ref)
CLAIMS = {
    "C01": ("property-based round-trip testing (rapid) + bounded-exhaustive tree enumeration + native coverage-guided fuzzing, oracle = independent RESP2 codec",
            "Generated-input search: every value tree of a small alphabet/arity/depth is enumerated and tens of thousands of random trees (all byte values, bulks to 64KiB, deep nesting) and constructor arguments are pushed through four round-trip relations against an independent strict codec. The bytes a serialization returns must stay unchanged when another value is serialized, scalars built by struct literal or re-typed after construction must serialize like constructor-built ones, and a fifth relation demands that serialization is a function of the value (serialized twice, and after its arrays have been read through their cursors). Exploration is the right level: the domain is infinite, the relations are cheap and exact.",
            "Trusts the harness's own codec (internal/resp, written from the RESP2 specification, self-tested) and Go's strconv for the float oracle.",
            "DESIGN.md 4/C01"),
    "C02": ("property-based testing (rapid) over value sequences x read partitions (all 2-way splits, 1-byte reads, biased k-way), oracle = exact values + exact consumed offsets via a counting chunk reader; native fuzzing of (stream, partition)",
            "Generated-input search over (stream, chunking) pairs with an exact oracle: the i-th value and the number of bytes consumed after it are known from the independent encoder. Every 2-way split of short streams is enumerated, longer streams are split at every length-prefix/CR-LF position; a second generator sends pipelined ECHO requests with payloads around 4 KiB/8 KiB/64 KiB through the server's own connection path in generated chunkings and requires every reply to be the payload sent. Exploration because streams and partitions are unbounded.",
            "The chunk reader models a TCP connection (one chunk per Read, never (0,nil), (0,EOF) only at the end); and, in a third of the cases, the last bytes delivered together with io.EOF as crypto/tls does). A further sub-check drives ONE parser through tens of thousands of small valid values (lengths in periodic and pseudo-random order, 1.4 million array elements in total, a thousand null arrays, large arrays nested in large arrays): state a parser accumulates must not change what it returns. Trusts internal/resp.",
            "DESIGN.md 4/C02"),
    "C06": ("mutation-based and grammar-aware fuzzing (rapid-driven structure-aware mutators + native coverage-guided go test -fuzz), oracle = no panic / no absent element / read-count bound, allocation bombs judged by process survival in a child under RLIMIT_AS",
            "Generated hostile inputs (mutated valid streams, boundary lengths and counts, nesting to 2^18 levels) are fed to Parser.Next() until end or error; a panic, an array with an absent element, a read count beyond 10^6+1000*len, or the death of a memory-limited child process is a violation. Added: transports that deliver the last bytes together with io.EOF, bulk strings of a large declared length that stop early, lines of tens of thousands of bytes without terminator, long streams of small values through one parser, large arrays nested in large arrays. Exploration: the input space is all byte strings up to 1 MiB.",
            "RLIMIT_AS=8GiB stands for 'a <=1MiB input must not need more than 8GiB'; the step bound is a count of Read calls, not a clock. Native fuzzing cannot be seeded; its saved input is the reproducible unit.",
            "DESIGN.md 4/C06"),
    "C05": ("grammar-based property testing (rapid): well-formed requests generated from an independent command grammar, oracle = recorded handler calls vs the grammar's expected calls + reply pass-through",
            "For each of the 67 registered commands hundreds of generated well-formed vectors (all option combinations/orders, binary strings, boundary numbers, duplicate keys, random letter case, optional SELECT) are served through the real connection loop on a scripted connection with a recording handler; each also with a handler that returns an error (with or without a message) and with a tracer installed; commands over 2..40 keys with a slow, failing handler must make no handler call after they are answered; the call log must equal the grammar's expectation and the reply must be the handler's result. Unknown names and application executors are covered by two more generators. Exploration: argument space is unbounded.",
            "The grammar (internal/cmdspec) was written from the Redis command reference and redis/handler.go, not from the executors; combinations whose expected handler arguments are not defined by the interface (ZRANGE BYSCORE REV, KEEPTTL+EX, ZADD NX+GT) are not generated. EXPIRE's instant is checked as an interval bracketed by two clock readings of the harness.",
            "DESIGN.md 4/C05, Appendix A"),
    "C03": ("property-based testing (rapid) over request pipelines x chunkings x handler scripts on a scripted in-memory connection; oracle = strict frame decoder + reply-before-blocking invariant at every transport read + watchdog",
            "Generated pipelines (every registered command with valid, invalid, missing, surplus and option arguments, unknown names, QUIT anywhere) are delivered in generated chunkings through the real connection loop; scripted handler errors include well-known error values (io.EOF, net.ErrClosed, timeouts), message+error and unserializable messages; requests of up to 2049 elements; two connections on real listeners idle for 12 s between requests; one connection carrying more than a gigabyte; a peer served while another connection reads late; the harness owns every Read, so at each moment the server asks for undelivered bytes it checks that every fully delivered request has been answered, then that the output is exactly one frame per request in order, and finally that a following connection to the same server is still served. Handler scripts include errors and results that are neither message nor error; some requests carry arguments of 4 KiB..128 KiB; a child-process pass sends extreme count-like arguments to the example server, each of which must be answered within 10 s. Exploration: pipelines and chunkings are unbounded.",
            "Liveness is approximated: a stall verdict needs the loop not to return within 30s AND two goroutine dumps showing the connection goroutine busy outside the transport. Count-like arguments are bounded to 10^6 in-process.",
            "DESIGN.md 4/C03"),
    "C04": ("property-based testing (rapid) + native fuzzing: hostile client streams x scripted handler results, oracle = independent strict RESP2 decoder over the whole output",
            "Client streams of every RESP type with CR/LF and forged frames in every client-controlled position, and handler results of every shape (arbitrary trees, nil, errors with arbitrary text), against both a scripted handler and the bundled example store; bytes that are not a request may follow the stream (whatever is written in answer must be frames too); everything written must decode into exactly one canonical frame per request; scripted results are applied to every handler call, including those made on behalf of composed commands. Exploration over an unbounded input space.",
            "Integer replies are generated with valid decimal payloads only (a handler building ':abc' by hand is outside 'valid RESP value'); QUIT appears only in the big-replies generator (everything behind it is unanswered). Further generators: pipelines with replies of several KiB; a slow reader whose reply writes are held back while a peer is served (the bytes handed to Write are snapshotted and compared at delivery; write deadlines are honoured by the scripted connection); handler results the constructors allow but no decoder yields (array message without array, unknown type, nil element also behind 8 KiB).",
            "DESIGN.md 4/C04"),
    "C10": ("complete enumeration of a table of ill-formed request shapes derived from a positional command schema + random variation (rapid); oracle = error reply, zero handler calls attributed to the request, probe request answered normally",
            "Every ill-formed shape the property lists is generated systematically for every command (omitted positions, nulls, non-numeric/overflowing/fractional tokens, dangling halves, exclusive SET options, non-positive expiries) and each is followed by a probe request, and each is repeated on an authenticated connection of a password-protected server; the enumeration of the table is complete, letter case and argument contents are randomised on top.",
            "Handler calls are attributed to requests by the number of complete reply frames on the connection at call time. Surplus arguments and negative counts are not in the property's list and are not asserted.",
            "DESIGN.md 4/C10"),
    "C11": ("exhaustive crash-point enumeration per generated pipeline (every byte offset x half/full close), differential oracle against the same server fed only the complete requests",
            "For each generated pipeline of well-formed requests the stream is cut at every byte offset, with half-close, full close after the last byte, and a peer that is already gone (every reply write fails); handler calls and replies must equal those produced by the completely delivered requests alone, and the loop must return, close the connection and leave the registry - also when the transport's Close reports an error, when the server object is in its second run and when the end of the stream arrives together with the last bytes; plus a real TCP client through the accept loop with 24 MiB of replies read after its half-close, a 70 KiB value of CR LF lines cut behind its line ends, and inline commands cut at every offset. The cut points of a pipeline are enumerated completely; pipelines are sampled.",
            "VerifServeConn is synchronous, so its return is the end of the connection goroutine's work. Order of handler calls inside one request (Go map iteration in MSET/HMSET) is not compared.",
            "DESIGN.md 4/C11"),
    "C20": ("property-based testing (rapid) over pipelines x cut points x auth state with a recording tracer double; oracle = well-nestedness invariants over a sequence-numbered event log",
            "The C03/C10 pipelines, optionally cut anywhere, optionally with reply writes failing after N bytes and optionally under a required password, are served with a tracer double whose span contexts are go-tracing's own stack implementation; requests that carry no command are interspersed, the tracer is replaced while a connection is idle, two connections contend for the command lock, clients on real sockets are stopped while idle, and a separate generator lets the SERVER end the connection (Stop while it waits or is inside a handler operation); every span must be finished exactly once, nested in its parent, roots and siblings must not overlap, and every write/handler call must lie in exactly one root with at most one reply per root.",
            "The tracer double stands for any tracer built on go-tracing's common span-context stack (as the bundled OpenTelemetry/OpenTracing adapters are).",
            "DESIGN.md 4/C20"),
    "C12": ("model-based property testing (rapid) + exhaustive index tables: command programs against a reference store used as handler, oracle = executable Redis model (replies and final store state)",
            "The handler is a reference store whose primitives behave like Redis; the framework derives the commands of the property from them. GETRANGE/SUBSTR, ZREVRANGE and ZREVRANGEBYSCORE index/bound tables are enumerated completely inside the stated bounds, random programs mix setup and derived commands; command names in every spelling, counters in exotic spellings, CONFIG programs over the server's own parameter names, runs of unsupported requests; every reply and the final store contents must equal an independent command-level Redis model.",
            "The model (internal/model) is written from the Redis documentation; integer forms Redis rejects but strconv accepts ('+5','007') are treated as integers (contested, not asserted); CONFIG GET of never-set parameters may be absent or empty.",
            "DESIGN.md 4/C12"),
    "C18": ("model-based property testing (rapid) + bounded-exhaustive program enumeration per data type against the bundled example store, oracle = executable Redis model",
            "All programs of length <=3 over ~20 concrete commands per data type are enumerated, and random programs up to 40 commands revisit a small pool of keys, members and binary values; after each program KEYS *, TYPE/EXISTS and a full read of every pool key are appended. Every reply must equal the model's under stated comparison rules (unordered replies as multisets, score ties permutable). Key names with punctuation, lists of hundreds of elements, sorted sets of dozens of members re-scored, LIMIT counts near 2^63, integers in non-canonical spellings.",
            "Each key is used with one data type, no expiry, ZADD without flags, LPOP/RPOP without count or with count>=2 (the handler interface cannot tell 'LPOP k' from 'LPOP k 1'), finite scores.",
            "DESIGN.md 4/C18"),
    "C17": ("complete enumeration over a 9-symbol alphabet + property-based testing (rapid) of longer patterns, oracle = direct recursive glob matcher; differential KEYS vs SCAN MATCH at server level",
            "Every pattern up to length 3 (thorough: 5) is compiled and matched against every key up to length 4 (thorough: 5) over {a,b,*,?,.,+,(,|,$} and compared with a reference matcher; longer random patterns add ) ^ { } space newline and non-ASCII; a populated example store must answer KEYS with exactly the reference-selected keys and SCAN MATCH with the same set - completely for patterns up to length 3 against a store holding every key up to length 2 over {a,b,*,?}, and {a,e-acute,*,?}, with key spaces of up to 4099 keys and patterns of 65 KiB and more; byte-string patterns and keys (lone high bytes, escapes, classes) must compile without error or panic.",
            "'[', ']' and backslash are not generated (Redis glob syntax the property does not mention); '?' is compared as one character (rune).",
            "DESIGN.md 4/C17"),
    "C08": ("bounded-exhaustive sequence enumeration + stateful property-based testing (rapid) over 1..3 scripted connections; oracle = per-connection authorization model over handler calls and replies",
            "All request sequences up to length 3 over a 30-symbol alphabet built around the password (every listed AUTH candidate, one- and two-argument forms, non-AUTH commands) and all interleavings of two connections with two requests each are enumerated; longer random interleavings over up to 3 connections (plain or TLS) and 5 passwords follow; all sequences up to length 2 are repeated on a TLS connection. Environments: a server that ran with another password and was restarted, steps issued while Stop is between its phases, Start called again on the running server; passwords ending in a line end. The harness owns the interleaving at request granularity, so every schedule is replayable.",
            "The server is configured through SetRequirePass + Start (port disabled), the genuine configuration path. AUTH '' P and AUTH default P may be accepted or refused (ambiguous in the property).",
            "DESIGN.md 4/C08"),
    "C13": ("systematic interleaving enumeration + stateful property-based testing (rapid) over 2..8 scripted connections; oracle = per-connection model of database/authorization/user data checked inside every handler call",
            "Interleavings of SELECT/AUTH/data/REMEMBER scripts are generated at request granularity (all 20 interleavings of two 3-request scripts for a systematic set of script pairs, random interleavings of up to 8 connections); the recording handler reports conn.Database(), IsAuthrized() and the per-connection sync.Map token seen inside each call, which must match that connection's own history. Scripts also contain unusual SELECT indexes, CONFIG SET requirepass by a peer, any well-formed command of the grammar and every command the server has registered beyond the grammar; connections are plain or TLS; a separate scenario lets Stop arrive between the handler operations of a composed command. Cases also run with a tracer installed, with identical remote addresses, with runs of 15..40 failed AUTHs, and with an executor that drops the connection's user data.",
            "Request-granularity interleavings; true parallelism is exercised by C14/C16. The thorough tier additionally builds with -race.",
            "DESIGN.md 4/C13"),
    "C07": ("fault-injecting property-based testing (rapid) with an offender/witness pair on scripted connections + a child-process tier that judges process survival; oracle = no escaped panic, no stall, exact witness replies, process alive and accepting",
            "Generated offender streams (boundary arguments for every numeric position incl. empty score bounds, grammar instances of every command, empty/null/nested/non-array frames, nesting around the depth limit, mutated frames, disconnects, an offender that stops reading so that the reply write blocks, an offender whose reply writes fail, an offender that reads late - its reply bytes are snapshotted when the write begins and compared at delivery) are interleaved request by request with a witness connection on the same server, against the example store and against a scripted handler with nil/wrong-shaped results; a fixed list of ~50 dangerous requests (allocation bombs, extreme counts, 8M-deep nesting, a concurrent same-hash burst) runs against the example server as a separate process under RLIMIT_AS whose wait status is the verdict (incl. KEYS with a pattern of 1.7 million wildcards). Added: clients on goroutines of their own (commands the framework composes from other commands against writers - nobody may stall) and 12000 badly ending connections on one server followed by a fresh client.",
            "A panic recovered in-process stands for a process abort (there is no recover in the server's loops). The concurrent burst depends on the scheduler. Whether a value comes back as status or bulk is not judged here (C04/C18).",
            "DESIGN.md 4/C07"),
    "C16": ("history-based property testing: generated concurrent workloads (harness-forced interleavings at handler-primitive granularity + uncontrolled goroutines), oracle = complete linearizability search (porcupine v1.3.0) against the sequential Redis model",
            "Controlled mode uses a handler double that is not synchronized itself (its conditional Set reads and writes in two steps) and parks one client at each gate of its command (before Get, between Get and Set, inside SETNX/GETSET, ...) while another client's command is started, exhaustively for all ordered pairs of the nine operation kinds, plus random multi-round sequences; uncontrolled mode runs 2..8 clients on real goroutines against the reference store and the example store, including hammer plans in which all clients issue the same read-modify-write command on one key. Further modes: clients taking turns without overlap, a client whose reply is held back while two others work, connections that received an error reply before the contended command, DEL of several keys, the nested request form, a second client connecting while the first is inside its command, and commands over many keys whose handler calls must all precede the reply. Every recorded history (logical-clock invoke/return stamps) is checked for linearizability.",
            "The recorded history is the reproducible unit (replay re-checks it); whether a forced interleaving materialises depends on a 3 ms scheduling aid that is never used as a verdict. Uncontrolled mode depends on the scheduler.",
            "DESIGN.md 4/C16"),
    "C15": ("schedule-enumerating property testing: lifecycle sequences x harness-owned schedules at instrumented points (turnstile), exhaustive for short sequences, rapid-drawn beyond; oracle = dial+PING after Start, bind probe / client EOF / registry / goroutine profile after Stop",
            "Lifecycle call sequences run against real loopback listeners while a turnstile installed at the verif schedule points parks accept loops at their accept-error exit or at the very end of their goroutine, a connection between Accept and registration, connection goroutines before serving (released after the call, after the next Start, after the next Start once new clients have connected, or at the end), Stop between its phases and Start after opening the listeners; all hold combinations are enumerated for sequences of up to three calls, longer sequences with client churn are drawn from rapid. The controller is event-driven: it waits for the arrivals an action causally guarantees, not for sleeps. A second evaluator without schedule control mixes the calls (each under a time limit) with run-time reconfiguration of the ports, an occupied TLS port and a missing certificate: a Start that returns nil must serve every enabled port, after Stop no port the server ever listened on may be held (garbage collection off, so that a finalizer cannot hide a lost listener); also Start on a running server, dozens of connected clients at Stop, a tracer whose Start fails, 1100 failing handshakes before a Restart, a lifecycle call from inside a command.",
            "Port release, client-side closure and registry emptiness are judged at Stop's return with parked goroutines still parked; 'no server goroutine remains' after a 15 s settle budget (a goroutine told to end but not yet scheduled is not a leak). If Stop does not wait for parked loop exits they are released after the next Start (60 ms probe - a scheduling aid, never a verdict).",
            "DESIGN.md 4/C15"),
    "C09": ("complete enumeration of a finite configuration x credential x fault x order product on real loopback TCP/TLS with run-time generated certificates (+ rapid-drawn bursts in thorough); oracle = handler calls per client identity, disconnect of rejected clients, survivors still served",
            "All 192 combinations of server configuration, client credential, handshake fault and order are run against a started server; handler calls are attributed to clients by unique keys and may only stem from clients whose chain verifies and whose leaf carries the configured name (after AUTH where a password is set); after each faulty client, and while a staller is still connected, a valid TLS client and a plain client must be served. Added: a rejected client's second visit with a TLS session cache; bursts of 70 failing handshakes on one server; the configured CA replaced at run time followed by Restart/Stop+Start; credentials at the edge (the rule's name in another letter case, a certificate expired seconds ago or not yet valid), the password changed at run time under a name rule, 1100 failing handshakes on one server, a server process whose host trust store contains the foreign CA; and a child-process tier in which generated handshake junk (as first bytes or after a well-formed ClientHello) must leave the server process alive and serving.",
            "Key material comes from crypto/rand (affects no decision). The stall verdict needs a 5 s handshake timeout of the valid client AND a goroutine dump showing the TLS accept loop inside Handshake. On the plain port with rule+password only 'a reply frame came back' is asserted.",
            "DESIGN.md 4/C09"),
    "C19": ("fault-sequence property testing (rapid): deterministic endings on scripted connections + churn plans on real loopback TCP/TLS; oracle = per-connection closure/registry checks and resource counters (server goroutines, registry size, /proc/self/fd) returning to baseline",
            "Every ending mode the property lists is injected - exact cut offsets, write failures and rejected certificates on scripted connections; FIN, RST, QUIT, malformed frames, clients that keep their end open after the server ended the connection, peers that stop reading (and stay while the others must be released), failed TLS handshakes, rejected certificates, clients leaving exactly when Stop sweeps, TLS handshakes still pending at Stop, and Server.Stop on real sockets with 1..32 connections in flight - and after each plan the goroutine, registry and descriptor counts must settle back to the values sampled before it. A third of the plans ending with Stop reconfigure a listening port first (Stop under a time limit); one fixed plan accumulates 90 (thorough 600) failing TLS handshakes on one server; the server stopped or restarted from inside a command; a reply still unread when Stop is called. Every time-based verdict of a churn plan is confirmed by repeating the plan with tripled budgets.",
            "The 15 s settle budget bounds the wait for in-flight kernel events; what is judged is the final state, with the leaked goroutines' stacks / descriptor targets attached.",
            "DESIGN.md 4/C19"),
    "C14": ("randomized concurrent workload generation (rapid) executed under the Go race detector in a child process; oracle = race reports whose racing access is in the framework, reduced to unordered access-site pairs",
            "Workload plans (2..32 clients on the plain port, the TLS port or in-memory connections through the real loop, over every command family with churn, AUTH, requests that carry no command, CONFIG SET/GET on shared parameters including requirepass, SetRequirePass+Restart, CONFIG SET of the TLS file parameters and of the parameter names real Redis servers know, in-memory connections whose Close reports an error, themed plans (auth, config, tls-config, no-command, churn), registry enumeration, Stop/Start/Restart, yields and delays, plain or TLS listeners) are drawn from rapid and executed against a started server in a -race build; every report with a framework access is a violation, as is a concurrent-map abort.",
            "The race detector only sees races that occur in an execution: detection depends on the interleavings that happen - the weakest claim of the set. The handler double is race-free, so reports concern the framework. Enumeration reads only immutable connection attributes.",
            "DESIGN.md 4/C14"),
}

PENDING = {
}


def main():
    props = [json.loads(l) for l in open(os.path.join(ROOT, "properties.jsonl"))]
    hooks_commits = []
    try:
        out = subprocess.run(["git", "-C", "/repo", "log", "--format=%H %s"], capture_output=True, text=True).stdout
        for line in out.splitlines():
            h, s = line.split(" ", 1)
            if s.startswith("verif:"):
                hooks_commits.append(h)
    except Exception:
        pass
    checks, na = [], []
    for p in props:
        pid = p["id"]
        if pid in CLAIMS:
            tech, text, note, ref = CLAIMS[pid]
            checks.append({
                "property_id": pid,
                "quick_cmd": "./check %s quick" % pid,
                "thorough_cmd": "./check %s thorough" % pid,
                "evidence_file": "/verif/evidence/%s.json" % pid,
                "replay_cmd_template": "./check --replay {path}",
                "engine": "props",
                "level_claimed": {"category": "exploration", "text": text, "design_ref": ref},
                "level_note": note,
                "technique": tech,
            })
        else:
            na.append({"property_id": pid, "reason": PENDING.get(pid, "check not built yet in this session (planned: property-based testing per DESIGN.md section 4); not claimed until it runs")})
    m = {
        "version": 1,
        "setup_cmd": "./check --setup",
        "hooks": {
            "guard": "verif",
            "enable": "go test -tags verif (the driver builds /verif/props with -tags verif against /repo's working tree via a replace directive)",
            "baseline_off_cmd": "cd /repo && GOFLAGS=-mod=mod go test -vet=off -count=1 -timeout 25m ./...",
            "source_commits": hooks_commits,
            "add_only": True,
        },
        "engines": [
            {"name": "props", "path": "/verif/props", "serves_properties": sorted(CLAIMS),
             "kind_free_text": "Go test binary: rapid v1.3.0 properties, enumerators and native fuzz targets over the real library; python3 driver ./check shards, merges evidence, maps verdicts to exit codes"},
        ],
        "checks": checks,
        "not_applicable": na,
        "notes": "All checks are property-based testing / fuzzing (generated inputs against explicit oracles). Known, unrepaired defects are listed in /verif/known_findings.json; repaired ones are 'fix:' commits in /repo with their probes kept as regression replays under /verif/replays/.",
    }
    with open(os.path.join(ROOT, "MANIFEST.json"), "w") as fh:
        json.dump(m, fh, indent=1)
        fh.write("\n")
    try:
        import jsonschema
        jsonschema.validate(m, json.load(open("/root/.vp/MANIFEST.schema.json")))
        print("MANIFEST.json valid; claimed:", sorted(CLAIMS))
    except ImportError:
        print("jsonschema not available; wrote MANIFEST.json")


if __name__ == "__main__":
    main()
