#!/bin/bash
# trymut.sh <prop> <sed-expr> <file-relative-to-repo> : apply a one-line mutation in a scratch worktree, run the quick check there, clean up.
set -u
prop=$1; expr=$2; file=$3
d=/tmp/mut-$$
git -C /repo worktree add -q --detach $d HEAD || exit 9
sed -i "$expr" $d/$file
if git -C $d diff --quiet; then echo "MUTATION DID NOT CHANGE ANYTHING"; fi
(cd $d && GOFLAGS=-mod=mod GOPROXY=off GOSUMDB=off GOTOOLCHAIN=local go build ./... ) || echo "MUTANT DOES NOT BUILD"
VERIF_REPO=$d /verif/check $prop quick 2>&1 | grep -E '^VIOLATION|^  key|quick:|BUILD|exited' | head -8
git -C /repo worktree remove --force $d
tag=$(python3 -c "import hashlib;print(hashlib.sha1('$d'.encode()).hexdigest()[:8])"); rm -f /verif/.build/go.$tag.mod /verif/.build/go.$tag.sum /verif/.build/props.test.go.$tag.mod /verif/.build/props.race.test.go.$tag.mod
