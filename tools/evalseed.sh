#!/bin/bash
# evalseed.sh <prop> <k> [tier]: validate seeded change /tmp/sa-out/<prop>/<k> in a scratch worktree:
#  baseline suite with the change, demo with/without, then the property's check against the changed tree.
set -u
prop=$1; k=$2; tier=${3:-quick}
src=/tmp/sa-out/${SEEDDIR:-$prop}/$k
export GOFLAGS=-mod=mod GOPROXY=off GOSUMDB=off GOTOOLCHAIN=local
d=/tmp/seed-$prop-$k-$$
git -C /repo worktree add -q --detach $d ${SEEDBASE:-HEAD} || exit 9
cleanup() { git -C /repo worktree remove --force $d 2>/dev/null; tag=$(python3 -c "import hashlib;print(hashlib.sha1('$d'.encode()).hexdigest()[:8])"); rm -f /verif/.build/go.$tag.mod /verif/.build/go.$tag.sum /verif/.build/props.test.go.$tag.mod /verif/.build/props.race.test.go.$tag.mod; }
trap cleanup EXIT
demo_dir=$(python3 -c "import json;print(json.load(open('$src/meta.json')).get('demo_dir',''))")
demo_file=$(ls $src | grep -E '_test\.go$|\.go$' | head -1)
race=""; if python3 -c "import json,sys;sys.exit(0 if '-race' in json.load(open('$src/meta.json')).get('demo_cmd','') else 1)"; then race="-race"; fi
echo "== $prop/$k: $(python3 -c "import json;print(json.load(open('$src/meta.json')).get('what',''))")"
run_demo() {
  if [ -n "$demo_file" ] && [ -n "$demo_dir" ] && [ -d "$d/$demo_dir" ]; then
    cp $src/$demo_file $d/$demo_dir/zz_seed_demo_test.go
    (cd $d/$demo_dir && timeout 300 go test $race -tags verif -count=1 -vet=off -run "$(grep -oE 'func (Test[A-Za-z0-9_]+)' $src/$demo_file | awk '{print $2}' | paste -sd'|')" . 2>&1 | tail -3)
    rm -f $d/$demo_dir/zz_seed_demo_test.go
  else
    echo "(demo not a test file in a package dir: $demo_file / $demo_dir)"
  fi
}
echo "-- demo on clean tree:"; run_demo
if ! git -C $d apply $src/patch.diff 2>/dev/null; then
  if git -C $d apply -3 $src/patch.diff 2>/dev/null && ! git -C $d diff --name-only --diff-filter=U | grep -q .; then echo "(patch applied with 3-way merge)"; git -C $d reset -q; else echo "PATCH DOES NOT APPLY"; exit 8; fi
fi
(cd $d && go build ./... && go build -tags verif ./...) || { echo "DOES NOT BUILD"; exit 7; }
echo "-- demo with the change:"; run_demo
echo "-- baseline suite with the change:"
(cd /verif && flock /tmp/sa-test.lock python3 tools/baseline.py $d | tail -3)
echo "-- check $prop $tier against the changed tree:"
VERIF_REPO=$d VERIF_MAXVIOL=${VERIF_MAXVIOL:-3} /verif/check $prop $tier 2>&1 | grep -a -E '^VIOLATION|^  key|^  detail|(quick|thorough):|BUILD|exited|KNOWN|HARNESS' | cut -c1-300 | head -12
