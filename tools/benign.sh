#!/bin/bash
# benign.sh [props...]: run the quick checks against every behaviour-preserving change kept under seeded/benign (none may raise an alarm).
cd /verif
for d in seeded/benign/*/; do
  tools/evalall.sh /verif/${d%/} "$@" 2>&1 | grep -a -E '^==|rc=[1-9]|VIOLATION|key:' | cut -c1-300
done
