#!/usr/bin/env python3
"""Regenerates section 11 of DESIGN.md (seeded changes table) from /verif/seeded/*/meta.json."""
import json, os, glob
rows = []
for d in sorted(glob.glob('/verif/seeded/*-*')):
    m = json.load(open(d + '/meta.json'))
    c = m.get('confirmed', {})
    rows.append((os.path.basename(d), m.get('property', ''), m.get('what', '').replace('|', '/').replace('\n', ' ')[:170],
                 c.get('detected_by', ''), c.get('violation_key', '').replace('|', '\\|'), c.get('note', '')))
missed = [r[0] for r in rows if 'MISSED' in r[5]]
notcaught = [r[0] for r in rows if r[3] == 'not caught']
sec = '''## 11. Seeded changes: which check catches which

%d changes to `/repo` were written by fresh sub-agents that saw only the text of one
property and a scratch worktree (nothing from `/verif`): two per property in a first round
(`C<nn>-<k>`), three more per property in a second and third round in which the agents
were told which ideas had been used already and asked for subtler ones (`M<nn>-<k>`, the
property is C<nn>), and two more per property in a fourth (`N<nn>-<k>`), a fifth and a sixth round (`P<nn>-<k>`,
`Q<nn>-<k>`; there the agents were told what kind of harness they were up against and to aim
at its blind spots), and one more per property in a seventh round (`R<nn>-1`). Each was confirmed here in a scratch worktree
(`tools/evalseed.sh`): the patch applies to `/repo` HEAD and builds with and without the
tag, the 233 baseline tests still pass with it, the agent's demonstration fails with the
change and passes without it, and the property's quick check reports a violation against
the changed tree (`VERIF_REPO=<worktree>`). Patch, demonstration and `meta.json` are kept
under `/verif/seeded/<name>/`; none of them was ever applied to `/repo` itself.

%d of them were **missed at first** and led to stronger checks (generator or oracle
changes, never a change of the property): %s - see the last column.

**Not caught** (recorded, with the reason in the last column and in section 10): %s.

Last regression over all kept changes (`tools/reseed.sh`, every patch applied to a scratch
worktree of `/repo` HEAD - or of the base it was confirmed against when a later `fix:` commit
conflicts with it - and the quick check of its property run against it): 226 of 240 reported
by the check of their own property; of the other 14, six are reported by the check of another
property (N05-2, P01-1, Q07-2, R01-1, R07-1, R08-1 - named in the table), two are made
harmless by a later repair of `/repo` (N15-2, P15-2) and six are the ones listed as not caught.

| seed | change | caught by | violation key | what the check lacked at first |
|---|---|---|---|---|
''' % (len(rows), len(missed), ', '.join(missed), ', '.join(notcaught) or 'none')
for name, prop, what, by, key, note in rows:
    lack = note[note.index('MISSED'):] if 'MISSED' in note else (note if by == 'not caught' else '')
    sec += '| %s | %s | %s | `%s` | %s |\n' % (name, what, by, key, lack)
sec += '''
Lessons folded back into the generators and oracles: sizes at which buffers are
re-allocated (arrays > 1024 elements, bulks around multiples of 4 KiB and 64 KiB), also
through the server's own connection path; handler results that are neither a message nor
an error, for *every* handler call; transports whose writes block or fail (also from the
first byte on); clients that keep their end open after the server ended the connection,
that leave exactly when Stop sweeps, or that never start their TLS handshake; a handler
double that is not internally synchronized (split read/write Set) so that framework-level
serialization is what the history depends on; overflowing tokens of exactly 19 digits and
boundary LIMIT offsets/counts; empty score bounds; mixed-case CONFIG parameter names;
executors registered after the same spelling has been requested; what a connection leaves
behind for the *next* connection of the same server; accept-loop goroutines held at their
very end, and connection goroutines of an earlier run released only after new clients
have connected. From the third round: a reply that is still being written while other
connections are served (slow readers, with a snapshot of the bytes handed to Write, and
write deadlines honoured by the scripted connection); run-time configuration by a peer
(CONFIG SET requirepass/timeout) and SetRequirePass+Restart; a second visit of a rejected
TLS client with a session cache, dozens of failed handshakes on one server instance and
handshake junk of every shape against a server process of its own; clients on the TLS
port and in-memory clients that survive a restart in the race workload; clients taking
turns and connections that have received an error reply before the contended command;
Stop between the handler operations of a composed command; unusual SELECT indexes;
credentials split between AUTH's two arguments; key spaces above 1024 keys; requests that
carry no command in traced pipelines. From the fourth round: second and later uses of one
object (a value serialized twice, a server object in its second run, a pattern reused after
many others); transports at the edge of their contract (bytes delivered together with
io.EOF, a Close that reports an error, connections idle for longer than any time-out a
feature might arm); the TLS flavour of every gate (C08, C13 on TLS connections);
configuration changed while the server runs (ports, CA) before Stop/Restart, and lifecycle
calls that fail; requests and replies beyond the sizes of internal buffers *inside*
pipelines (1100 elements, replies of several KiB followed by QUIT, an unserializable
element behind 8 KiB); commands the harness has no grammar for, taken from the server's own
registry; no-command requests in the race workload; keys made of wildcard characters at
server level; integers in non-canonical spellings; connections ended by the server while a
tracer is installed.
From the fifth round: state a *parser* accumulates over a long stream (budgets, depth
counters, slabs), state a *server* accumulates over thousands of connections; error values
with a meaning (io.EOF, timeouts) coming from a handler, a message together with an error;
real concurrency between composed read commands and writers (lock-step interleavings cannot
deadlock); what happens *during* Stop, and Stop called from inside a command; the host
environment of the server process (trust store); bytes that are not a request; byte strings
that are not text; containers that grow and shrink by hundreds of elements; the spelling of
command names in checks that used upper case only; identity confused with address; objects
swapped at run time (tracer); handler calls outliving the command that made them.
From the sixth round: who owns the bytes a call returns; objects built without their
constructor; volume on one connection (gigabytes) and on one value (eight-digit lengths,
million-character patterns); the same checks with a tracer installed; the second spelling of
everything (nested requests, inline commands, letter case of a certificate name, line ends
in a password); certificates at the edge of their validity; API calls out of order (Start
on a running server); commands of a newer protocol sent in bulk before ordinary ones;
what a handler may do with the connection's user-data map; a reply that is still unread
when the server stops; a second client arriving while the first is inside its command.

Sixteen **behaviour-preserving** changes (refactorings, micro-optimisations,
data-structure swaps, renames and re-worded error texts in redis/proto, the server core,
the executors, the example store, glob and auth) are kept under `seeded/benign/`; every
quick check is run against each of them (`tools/benign.sh`, last done on the final checks:
320 runs, no alarm): see section 8 for the one false alarm this exposed earlier (a timing
budget in C19) and its correction. `seeded/variants/B5-1` is a *correct* variant of seed
M04-2 (the connection is given up after a timed-out reply write) that C04 must not - and does
not - flag; C11 flags it in its "peer already gone" mode for the same reason as seed M11-2.

--------------------------------------------------------------------------------------

'''
p = '/verif/DESIGN.md'
s = open(p).read()
i = s.index('## 11. Seeded changes')
j = s.index('## Appendix A')
s = s[:i] + sec + s[j:]
open(p, 'w').write(s)
print(len(rows), 'rows;', len(missed), 'missed at first')
