package resp

import (
	"io"

	"pgregory.net/rapid"
)

// ChunkReader delivers a byte string as the given sequence of reads, the way a
// TCP connection does: at most one chunk per Read (less if the caller's buffer
// is smaller), never (0, nil), and (0, io.EOF) only after the last byte.
type ChunkReader struct {
	data   []byte
	cuts   []int // ascending offsets at which a chunk ends (exclusive of len(data))
	off    int
	ci     int
	Reads  int // number of Read calls
	Limit  int // if > 0: panic with StepLimit after this many Read calls
	AtEOF  int // number of Read calls answered with io.EOF
	OnRead func(off int)
	// EOFWithData: the read that hands out the last bytes returns them together with io.EOF, as the io.Reader
	// contract allows (crypto/tls does so when the peer's close_notify is already buffered behind the data)
	EOFWithData bool
}

// StepLimit is the panic value used when Limit is exceeded.
type StepLimit struct{ Reads int }

// NewChunkReader: sizes are the chunk lengths; a remainder forms the last chunk.
func NewChunkReader(data []byte, sizes []int) *ChunkReader {
	r := &ChunkReader{data: data}
	off := 0
	for _, s := range sizes {
		if s <= 0 {
			continue
		}
		off += s
		if off >= len(data) {
			break
		}
		r.cuts = append(r.cuts, off)
	}
	return r
}

// Consumed is the number of bytes handed out so far.
func (r *ChunkReader) Consumed() int { return r.off }

func (r *ChunkReader) Read(p []byte) (int, error) {
	r.Reads++
	if r.Limit > 0 && r.Reads > r.Limit {
		panic(StepLimit{r.Reads})
	}
	if r.OnRead != nil {
		r.OnRead(r.off)
	}
	if len(p) == 0 {
		return 0, nil
	}
	if r.off >= len(r.data) {
		r.AtEOF++
		return 0, io.EOF
	}
	for r.ci < len(r.cuts) && r.cuts[r.ci] <= r.off {
		r.ci++
	}
	end := len(r.data)
	if r.ci < len(r.cuts) {
		end = r.cuts[r.ci]
	}
	n := copy(p, r.data[r.off:end])
	r.off += n
	if r.EOFWithData && r.off >= len(r.data) {
		r.AtEOF++
		return n, io.EOF
	}
	return n, nil
}

// Interesting offsets of an encoded stream: positions inside length prefixes,
// between CR and LF, and inside payloads.
func InterestingCuts(data []byte) (inPrefix, betweenCRLF, other []int) {
	inLine := false
	for i := 0; i < len(data); i++ {
		c := data[i]
		if i > 0 && data[i-1] == '\r' && c == '\n' {
			betweenCRLF = append(betweenCRLF, i)
		}
		if c == '$' || c == '*' {
			inLine = true
			continue
		}
		if inLine {
			if c == '\r' {
				inLine = false
			} else if i > 0 {
				inPrefix = append(inPrefix, i)
			}
			continue
		}
		if i > 0 {
			other = append(other, i)
		}
	}
	return
}

// GenSizes draws a k-way partition of n bytes with boundaries biased towards the interesting cuts.
func GenSizes(data []byte) *rapid.Generator[[]int] {
	return rapid.Custom(func(t *rapid.T) []int {
		n := len(data)
		if n <= 1 {
			return nil
		}
		switch rapid.IntRange(0, 5).Draw(t, "chunking") {
		case 0:
			return nil // one chunk
		case 1:
			sizes := make([]int, n)
			for i := range sizes {
				sizes[i] = 1
			}
			return sizes
		}
		a, b, c := InterestingCuts(data)
		k := rapid.IntRange(1, 8).Draw(t, "k")
		cutSet := map[int]bool{}
		for i := 0; i < k; i++ {
			var pool []int
			switch rapid.IntRange(0, 3).Draw(t, "where") {
			case 0:
				pool = a
			case 1:
				pool = b
			case 2:
				pool = c
			}
			if len(pool) == 0 {
				cutSet[rapid.IntRange(1, n-1).Draw(t, "cut")] = true
			} else {
				cutSet[rapid.SampledFrom(pool).Draw(t, "cutp")] = true
			}
		}
		return CutsToSizes(cutSet, n)
	})
}

// CutsToSizes converts a set of cut offsets to chunk sizes.
func CutsToSizes(cutSet map[int]bool, n int) []int {
	var sizes []int
	prev := 0
	for i := 1; i < n; i++ {
		if cutSet[i] {
			sizes = append(sizes, i-prev)
			prev = i
		}
	}
	sizes = append(sizes, n-prev)
	return sizes
}
