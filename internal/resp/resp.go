// Package resp is an independent RESP2 codec written from the protocol
// specification. It shares no code with github.com/cybergarage/go-redis/redis/proto
// and is the reference the harness judges the library against.
package resp

import (
	"bytes"
	"encoding/base64"
	"encoding/json"
	"errors"
	"fmt"
	"strconv"
	"unicode/utf8"
)

// Kind of a RESP2 value.
type Kind byte

const (
	Status  Kind = '+'
	Error   Kind = '-'
	Integer Kind = ':'
	Bulk    Kind = '$'
	Array   Kind = '*'
)

// Value is a RESP2 value tree.
type Value struct {
	Kind  Kind
	Data  []byte  // payload of line types and bulk strings
	Null  bool    // null bulk string
	Elems []Value // array elements
}

func S(s string) Value         { return Value{Kind: Status, Data: []byte(s)} }
func E(s string) Value         { return Value{Kind: Error, Data: []byte(s)} }
func I(n int64) Value          { return Value{Kind: Integer, Data: []byte(strconv.FormatInt(n, 10))} }
func B(s string) Value         { return Value{Kind: Bulk, Data: []byte(s)} }
func BB(b []byte) Value        { return Value{Kind: Bulk, Data: append([]byte{}, b...)} }
func Nil() Value               { return Value{Kind: Bulk, Null: true} }
func A(elems ...Value) Value   { return Value{Kind: Array, Elems: append([]Value{}, elems...)} }
func Cmd(args ...string) Value { return CmdB(strs2bytes(args)...) }
func CmdB(args ...[]byte) Value {
	v := Value{Kind: Array, Elems: make([]Value, 0, len(args))}
	for _, a := range args {
		v.Elems = append(v.Elems, BB(a))
	}
	return v
}

func strs2bytes(ss []string) [][]byte {
	out := make([][]byte, len(ss))
	for i, s := range ss {
		out[i] = []byte(s)
	}
	return out
}

// Encode appends the canonical RESP2 encoding of v.
func (v Value) Encode(dst []byte) []byte {
	switch v.Kind {
	case Status, Error, Integer:
		dst = append(dst, byte(v.Kind))
		dst = append(dst, v.Data...)
		dst = append(dst, '\r', '\n')
	case Bulk:
		dst = append(dst, '$')
		if v.Null {
			dst = append(dst, '-', '1', '\r', '\n')
			return dst
		}
		dst = strconv.AppendInt(dst, int64(len(v.Data)), 10)
		dst = append(dst, '\r', '\n')
		dst = append(dst, v.Data...)
		dst = append(dst, '\r', '\n')
	case Array:
		dst = append(dst, '*')
		dst = strconv.AppendInt(dst, int64(len(v.Elems)), 10)
		dst = append(dst, '\r', '\n')
		for _, e := range v.Elems {
			dst = e.Encode(dst)
		}
	default:
		panic(fmt.Sprintf("resp: bad kind %q", byte(v.Kind)))
	}
	return dst
}

func (v Value) Bytes() []byte { return v.Encode(nil) }

// EncodeAll concatenates the encodings and also returns the end offset of each value.
func EncodeAll(vs []Value) ([]byte, []int) {
	var out []byte
	ends := make([]int, len(vs))
	for i, v := range vs {
		out = v.Encode(out)
		ends[i] = len(out)
	}
	return out, ends
}

// Equal is structural equality (type, payload bytes, nullness, arity, nesting).
func (v Value) Equal(o Value) bool {
	if v.Kind != o.Kind {
		return false
	}
	switch v.Kind {
	case Array:
		if len(v.Elems) != len(o.Elems) {
			return false
		}
		for i := range v.Elems {
			if !v.Elems[i].Equal(o.Elems[i]) {
				return false
			}
		}
		return true
	case Bulk:
		if v.Null != o.Null {
			return false
		}
		return v.Null || bytes.Equal(v.Data, o.Data)
	default:
		return bytes.Equal(v.Data, o.Data)
	}
}

func (v Value) IsError() bool { return v.Kind == Error }

// Str returns the payload of a status or non-null bulk value.
func (v Value) Str() (string, bool) {
	if v.Kind == Status || (v.Kind == Bulk && !v.Null) {
		return string(v.Data), true
	}
	return "", false
}

// Int returns the integer payload.
func (v Value) Int() (int64, bool) {
	if v.Kind != Integer {
		return 0, false
	}
	n, err := strconv.ParseInt(string(v.Data), 10, 64)
	return n, err == nil
}

// Depth is 0 for scalars, 1+max child depth for arrays.
func (v Value) Depth() int {
	if v.Kind != Array {
		return 0
	}
	d := 0
	for _, e := range v.Elems {
		if x := e.Depth(); x > d {
			d = x
		}
	}
	return d + 1
}

// Walk calls f on v and every descendant.
func (v Value) Walk(f func(Value)) {
	f(v)
	for _, e := range v.Elems {
		e.Walk(f)
	}
}

// String renders a value for humans and for JSON samples.
func (v Value) String() string {
	switch v.Kind {
	case Array:
		var b bytes.Buffer
		b.WriteString("[")
		for i, e := range v.Elems {
			if i > 0 {
				b.WriteString(" ")
			}
			b.WriteString(e.String())
		}
		b.WriteString("]")
		return b.String()
	case Bulk:
		if v.Null {
			return "$nil"
		}
		return "$" + quote(v.Data)
	default:
		return string(rune(v.Kind)) + quote(v.Data)
	}
}

func quote(b []byte) string {
	if len(b) > 48 {
		return strconv.Quote(string(b[:40])) + fmt.Sprintf("...(%d bytes)", len(b))
	}
	return strconv.Quote(string(b))
}

// jsonValue is the replay-file form of a value.
type jsonValue struct {
	K string      `json:"k"`
	S *string     `json:"s,omitempty"`   // payload when valid UTF-8
	B *string     `json:"b64,omitempty"` // payload otherwise
	N bool        `json:"null,omitempty"`
	E []jsonValue `json:"e,omitempty"`
}

func encBytes(b []byte) (s *string, b64 *string) {
	if utf8.Valid(b) {
		x := string(b)
		return &x, nil
	}
	x := base64.StdEncoding.EncodeToString(b)
	return nil, &x
}

func (v Value) toJSON() jsonValue {
	j := jsonValue{K: string(rune(v.Kind))}
	switch v.Kind {
	case Array:
		j.E = make([]jsonValue, len(v.Elems))
		for i, e := range v.Elems {
			j.E[i] = e.toJSON()
		}
	case Bulk:
		if v.Null {
			j.N = true
		} else {
			j.S, j.B = encBytes(v.Data)
		}
	default:
		j.S, j.B = encBytes(v.Data)
	}
	return j
}

func (j jsonValue) toValue() (Value, error) {
	if len(j.K) != 1 {
		return Value{}, errors.New("bad kind")
	}
	v := Value{Kind: Kind(j.K[0])}
	switch v.Kind {
	case Array:
		v.Elems = make([]Value, len(j.E))
		for i, e := range j.E {
			x, err := e.toValue()
			if err != nil {
				return v, err
			}
			v.Elems[i] = x
		}
		return v, nil
	case Status, Error, Integer, Bulk:
		if j.N {
			v.Null = true
			return v, nil
		}
		switch {
		case j.S != nil:
			v.Data = []byte(*j.S)
		case j.B != nil:
			b, err := base64.StdEncoding.DecodeString(*j.B)
			if err != nil {
				return v, err
			}
			v.Data = b
		default:
			v.Data = []byte{}
		}
		return v, nil
	}
	return v, errors.New("bad kind")
}

func (v Value) MarshalJSON() ([]byte, error) { return json.Marshal(v.toJSON()) }
func (v *Value) UnmarshalJSON(b []byte) error {
	var j jsonValue
	if err := json.Unmarshal(b, &j); err != nil {
		return err
	}
	x, err := j.toValue()
	*v = x
	return err
}

// Bin is a byte string with a JSON form that survives arbitrary bytes.
type Bin []byte

func (b Bin) MarshalJSON() ([]byte, error) {
	s, b64 := encBytes(b)
	if s != nil {
		return json.Marshal(*s)
	}
	return json.Marshal(map[string]string{"b64": *b64})
}

func (b *Bin) UnmarshalJSON(raw []byte) error {
	var s string
	if err := json.Unmarshal(raw, &s); err == nil {
		*b = []byte(s)
		return nil
	}
	var m map[string]string
	if err := json.Unmarshal(raw, &m); err != nil {
		return err
	}
	x, err := base64.StdEncoding.DecodeString(m["b64"])
	*b = x
	return err
}

// ---------------------------------------------------------------------------
// Strict decoder

var (
	// ErrIncomplete: the input is a proper prefix of a valid encoding.
	ErrIncomplete = errors.New("resp: incomplete frame")
)

// InvalidError describes input that is not the prefix of any canonical RESP2 encoding.
type InvalidError struct {
	Off int
	Msg string
}

func (e *InvalidError) Error() string {
	return fmt.Sprintf("resp: invalid at offset %d: %s", e.Off, e.Msg)
}

func invalid(off int, format string, a ...any) error {
	return &InvalidError{Off: off, Msg: fmt.Sprintf(format, a...)}
}

// MaxDepth bounds the recursion of the strict decoder.
const MaxDepth = 1 << 20

// Decode decodes exactly one canonical value from the front of b and returns
// the number of bytes it occupies. It accepts exactly the canonical encoding.
func Decode(b []byte) (Value, int, error) {
	return decode(b, 0, 0)
}

func readLine(b []byte, off int) (line []byte, next int, err error) {
	for i := off; i < len(b); i++ {
		switch b[i] {
		case '\n':
			return nil, 0, invalid(i, "bare LF inside a line")
		case '\r':
			if i+1 >= len(b) {
				return nil, 0, ErrIncomplete
			}
			if b[i+1] != '\n' {
				return nil, 0, invalid(i, "CR not followed by LF")
			}
			return b[off:i], i + 2, nil
		}
	}
	return nil, 0, ErrIncomplete
}

func canonInt(line []byte) (int64, bool) {
	if len(line) == 0 {
		return 0, false
	}
	s := line
	if s[0] == '-' {
		s = s[1:]
		if len(s) == 0 {
			return 0, false
		}
	}
	for _, c := range s {
		if c < '0' || c > '9' {
			return 0, false
		}
	}
	n, err := strconv.ParseInt(string(line), 10, 64)
	if err != nil {
		return 0, false
	}
	return n, true
}

func canonLen(line []byte) (int64, bool) {
	n, ok := canonInt(line)
	if !ok {
		return 0, false
	}
	// canonical decimal: no leading zeros, no "-0"
	if strconv.FormatInt(n, 10) != string(line) {
		return 0, false
	}
	return n, true
}

func decode(b []byte, off int, depth int) (Value, int, error) {
	if depth > MaxDepth {
		return Value{}, 0, invalid(off, "nesting too deep")
	}
	if off >= len(b) {
		return Value{}, 0, ErrIncomplete
	}
	k := Kind(b[off])
	switch k {
	case Status, Error:
		line, next, err := readLine(b, off+1)
		if err != nil {
			return Value{}, 0, err
		}
		return Value{Kind: k, Data: append([]byte{}, line...)}, next, nil
	case Integer:
		line, next, err := readLine(b, off+1)
		if err != nil {
			return Value{}, 0, err
		}
		if _, ok := canonInt(line); !ok {
			return Value{}, 0, invalid(off+1, "integer payload %q", line)
		}
		return Value{Kind: k, Data: append([]byte{}, line...)}, next, nil
	case Bulk:
		line, next, err := readLine(b, off+1)
		if err != nil {
			return Value{}, 0, err
		}
		n, ok := canonLen(line)
		if !ok || n < -1 {
			return Value{}, 0, invalid(off+1, "bulk length %q", line)
		}
		if n == -1 {
			return Value{Kind: Bulk, Null: true}, next, nil
		}
		if rem := int64(len(b) - next); n > rem-2 {
			// incomplete, unless what is there already contradicts the trailer
			if n == rem-1 && b[len(b)-1] != '\r' {
				return Value{}, 0, invalid(len(b)-1, "bulk body not followed by CRLF")
			}
			return Value{}, 0, ErrIncomplete
		}
		end := next + int(n)
		if b[end] != '\r' || b[end+1] != '\n' {
			return Value{}, 0, invalid(end, "bulk body not followed by CRLF")
		}
		return Value{Kind: Bulk, Data: append([]byte{}, b[next:end]...)}, end + 2, nil
	case Array:
		line, next, err := readLine(b, off+1)
		if err != nil {
			return Value{}, 0, err
		}
		n, ok := canonLen(line)
		if !ok || n < 0 {
			return Value{}, 0, invalid(off+1, "array count %q", line)
		}
		if n > int64(len(b)-next) { // each element needs at least 1 byte
			return Value{}, 0, ErrIncomplete
		}
		v := Value{Kind: Array, Elems: make([]Value, 0, n)}
		for i := int64(0); i < n; i++ {
			e, nx, err := decode(b, next, depth+1)
			if err != nil {
				return Value{}, 0, err
			}
			v.Elems = append(v.Elems, e)
			next = nx
		}
		return v, next, nil
	}
	return Value{}, 0, invalid(off, "type byte %q", b[off])
}

// DecodeAll splits b into complete canonical frames. It returns the frames,
// the end offset of each, and the status of the rest: nil when b was consumed
// entirely, ErrIncomplete when a proper prefix of a frame is left over, or an
// *InvalidError.
func DecodeAll(b []byte) ([]Value, []int, error) {
	var vs []Value
	var ends []int
	off := 0
	for off < len(b) {
		v, next, err := decode(b, off, 0)
		if err != nil {
			return vs, ends, err
		}
		vs = append(vs, v)
		ends = append(ends, next)
		off = next
	}
	return vs, ends, nil
}
