package resp

import (
	"math"

	"pgregory.net/rapid"
)

// Forged frames an attacker would try to smuggle through a payload.
var Forged = []string{"\r\n+OK\r\n", "\r\n:1\r\n", "\r\n$-1\r\n", "\r\n-ERR x\r\n", "\r\n*0\r\n", "\r", "\n", "\r\n"}

var typeBytes = []byte("+-:$*")

// GenLinePayload: bytes of a status/error payload - everything except CR and LF,
// weighted towards type bytes, digits, NUL and high bytes.
func GenLinePayload() *rapid.Generator[[]byte] {
	b := rapid.Custom(func(t *rapid.T) byte {
		switch rapid.IntRange(0, 9).Draw(t, "cls") {
		case 0:
			return rapid.SampledFrom(typeBytes).Draw(t, "tb")
		case 1:
			return byte('0' + rapid.IntRange(0, 9).Draw(t, "d"))
		case 2:
			return 0
		case 3:
			return byte(rapid.IntRange(0x80, 0xff).Draw(t, "hi"))
		case 4:
			return ' '
		default:
			c := rapid.Byte().Draw(t, "c")
			if c == '\r' || c == '\n' {
				c = 'x'
			}
			return c
		}
	})
	return rapid.Custom(func(t *rapid.T) []byte {
		n := 0
		switch rapid.IntRange(0, 9).Draw(t, "lencls") {
		case 0:
			n = 0
		case 1:
			n = rapid.IntRange(40, 300).Draw(t, "len")
		default:
			n = rapid.IntRange(1, 12).Draw(t, "len")
		}
		return rapid.SliceOfN(b, n, n).Draw(t, "payload")
	})
}

var bulkLens = []int{0, 1, 2, 3, 7, 8, 9, 63, 64, 65, 4095, 4096, 4097, 65535, 65536}

// GenBulkPayload: all 256 byte values; lengths at the interesting boundaries;
// content weighted towards CR, LF and forged frames. maxLen caps the length.
func GenBulkPayload(maxLen int) *rapid.Generator[[]byte] {
	return rapid.Custom(func(t *rapid.T) []byte {
		var n int
		switch rapid.IntRange(0, 19).Draw(t, "lencls") {
		case 0, 1:
			n = rapid.SampledFrom(bulkLens).Draw(t, "blen")
		case 2:
			n = rapid.IntRange(0, maxLen).Draw(t, "anylen")
		default:
			n = rapid.IntRange(0, 24).Draw(t, "len")
		}
		if n > maxLen {
			n = maxLen
		}
		out := make([]byte, 0, n)
		if n > 256 {
			// long payloads: a drawn short motif repeated, so shrinking stays cheap
			motif := rapid.SliceOfN(rapid.Byte(), 1, 16).Draw(t, "motif")
			for len(out) < n {
				out = append(out, motif...)
			}
			out = out[:n]
			// and CR/LF planted at the edges
			if rapid.Bool().Draw(t, "edge") {
				out[0] = '\r'
				out[n-1] = '\n'
				out[n-2] = '\r'
			}
			return out
		}
		for len(out) < n {
			switch rapid.IntRange(0, 9).Draw(t, "piece") {
			case 0:
				out = append(out, rapid.SampledFrom(Forged).Draw(t, "forged")...)
			case 1:
				out = append(out, '\r')
			case 2:
				out = append(out, '\n')
			case 3:
				out = append(out, 0)
			case 4:
				out = append(out, rapid.SampledFrom(typeBytes).Draw(t, "tb"))
			default:
				out = append(out, rapid.Byte().Draw(t, "b"))
			}
		}
		return out[:n]
	})
}

var intBoundaries = []int64{0, 1, -1, 9, 10, 127, 128, 255, 256, 65535, 65536, math.MaxInt32, math.MaxInt32 + 1, math.MinInt32, math.MinInt32 - 1, math.MaxInt64, math.MaxInt64 - 1, math.MinInt64, math.MinInt64 + 1}

// GenInt64: all int64 with boundary bias.
func GenInt64() *rapid.Generator[int64] {
	return rapid.Custom(func(t *rapid.T) int64 {
		if rapid.IntRange(0, 3).Draw(t, "icls") == 0 {
			return rapid.SampledFrom(intBoundaries).Draw(t, "ib")
		}
		return rapid.Int64().Draw(t, "i")
	})
}

// GenOpts controls the shape of generated trees.
type GenOpts struct {
	MaxBulk  int // largest bulk payload
	MaxArity int
	MaxDepth int
}

var DefaultGen = GenOpts{MaxBulk: 65536, MaxArity: 8, MaxDepth: 4}

// GenValue draws a RESP2 value tree. Null arrays are never generated.
func GenValue(o GenOpts) *rapid.Generator[Value] {
	return rapid.Custom(func(t *rapid.T) Value {
		return genValue(t, o, 0, new(int))
	})
}

func genValue(t *rapid.T, o GenOpts, depth int, budget *int) Value {
	hi := 9
	if depth >= o.MaxDepth || *budget > 400 {
		hi = 6
	}
	*budget++
	switch rapid.IntRange(0, hi).Draw(t, "kind") {
	case 0:
		return Value{Kind: Status, Data: GenLinePayload().Draw(t, "status")}
	case 1:
		return Value{Kind: Error, Data: GenLinePayload().Draw(t, "error")}
	case 2:
		return I(GenInt64().Draw(t, "int"))
	case 3:
		return Nil()
	case 4, 5, 6:
		mb := o.MaxBulk
		if *budget > 40 && mb > 64 {
			mb = 64
		}
		return Value{Kind: Bulk, Data: GenBulkPayload(mb).Draw(t, "bulk")}
	default:
		var n int
		switch rapid.IntRange(0, 29).Draw(t, "aritycls") {
		case 0:
			n = 0
		case 1:
			n = rapid.IntRange(100, 140).Draw(t, "bigarity")
			if depth > 0 {
				n = o.MaxArity
			}
		case 2:
			if depth == 0 && o.MaxArity >= 6 {
				// arities around the powers of two where growing buffers are re-allocated: a short drawn motif of
				// small scalars repeated (cheap to draw and to shrink)
				n = rapid.SampledFrom([]int{255, 256, 257, 1023, 1024, 1025, 1026, 2047, 2048, 2049, 4096, 5000}).Draw(t, "hugearity")
				k := rapid.IntRange(1, 3).Draw(t, "motiflen")
				motif := make([]Value, k)
				for i := range motif {
					switch rapid.IntRange(0, 3).Draw(t, "motifkind") {
					case 0:
						motif[i] = I(int64(i))
					case 1:
						motif[i] = Nil()
					case 2:
						motif[i] = Value{Kind: Bulk, Data: GenBulkPayload(3).Draw(t, "motifbulk")}
					default:
						motif[i] = A()
					}
				}
				v := Value{Kind: Array, Elems: make([]Value, 0, n)}
				for i := 0; i < n; i++ {
					v.Elems = append(v.Elems, motif[i%k])
				}
				return v
			}
			n = rapid.IntRange(0, o.MaxArity).Draw(t, "arity")
		default:
			n = rapid.IntRange(0, o.MaxArity).Draw(t, "arity")
		}
		v := Value{Kind: Array, Elems: make([]Value, 0, n)}
		for i := 0; i < n; i++ {
			v.Elems = append(v.Elems, genValue(t, o, depth+1, budget))
		}
		return v
	}
}

// GenDeep draws a chain of single-element arrays of the given depth around a leaf.
func GenDeep(minDepth, maxDepth int) *rapid.Generator[Value] {
	return rapid.Custom(func(t *rapid.T) Value {
		d := rapid.IntRange(minDepth, maxDepth).Draw(t, "depth")
		v := Value{Kind: Bulk, Data: GenBulkPayload(8).Draw(t, "leaf")}
		if rapid.Bool().Draw(t, "emptyleaf") {
			v = A()
		}
		for i := 0; i < d; i++ {
			v = A(v)
		}
		return v
	})
}

// Enumerate calls f for every value tree over the small alphabet: line payloads
// and bulk payloads of length <= maxLen over alpha (line types skip CR/LF),
// null/empty bulks, arrays of arity <= maxArity and depth <= maxDepth.
func Enumerate(alpha []byte, maxLen, maxArity, maxDepth int, f func(Value)) {
	var payloads [][]byte
	var rec func(cur []byte)
	rec = func(cur []byte) {
		payloads = append(payloads, append([]byte{}, cur...))
		if len(cur) == maxLen {
			return
		}
		for _, c := range alpha {
			rec(append(cur, c))
		}
	}
	rec(nil)
	var scalars []Value
	for _, p := range payloads {
		hasCRLF := false
		for _, c := range p {
			if c == '\r' || c == '\n' {
				hasCRLF = true
			}
		}
		if !hasCRLF {
			scalars = append(scalars, Value{Kind: Status, Data: p}, Value{Kind: Error, Data: p})
		}
		scalars = append(scalars, Value{Kind: Bulk, Data: p})
	}
	scalars = append(scalars, Nil(), I(0), I(-1), I(math.MaxInt64), I(math.MinInt64))
	level := scalars // trees of depth <= d
	for _, s := range scalars {
		f(s)
	}
	for d := 1; d <= maxDepth; d++ {
		var arrays []Value
		// all arrays whose elements come from `level`
		var build func(prefix []Value)
		build = func(prefix []Value) {
			arrays = append(arrays, A(prefix...))
			if len(prefix) == maxArity {
				return
			}
			for _, e := range level {
				build(append(prefix, e))
			}
		}
		if d == maxDepth && maxDepth > 1 {
			// at the last level restrict elements to a thin slice so the space stays finite and small:
			// every array of the previous level plus a handful of scalars.
			thin := thinSlice(level)
			old := level
			level = thin
			build(nil)
			level = old
		} else {
			build(nil)
		}
		for _, a := range arrays {
			f(a)
		}
		level = append(append([]Value{}, scalars...), arrays...)
	}
}

func thinSlice(vs []Value) []Value {
	var out []Value
	nScalar := 0
	for _, v := range vs {
		if v.Kind == Array {
			if len(v.Elems) <= 1 {
				out = append(out, v)
			}
			continue
		}
		if nScalar%37 == 0 || v.Null || len(v.Data) == 0 {
			out = append(out, v)
		}
		nScalar++
	}
	return out
}
