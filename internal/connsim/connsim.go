// Package connsim provides scripted in-memory connections and runners that drive
// the real connection loop of the server through the verif entry point.
package connsim

import (
	"bytes"
	"errors"
	"fmt"
	"io"
	"net"
	"os"
	"runtime"
	"runtime/debug"
	"sync"
	"syscall"
	"time"

	"verif/internal/resp"
)

type addr string

func (a addr) Network() string { return "sim" }
func (a addr) String() string  { return string(a) }

// Event is one entry of the shared, sequence-numbered event log.
type Event struct {
	Seq  int
	Conn int
	Kind string // "write", "block", "eof", "close", "call", "span-start", "span-finish"
	Data string
	N    int
}

// Log is a sequence-numbered event log shared by connections, handler doubles and the tracer double.
type Log struct {
	mu     sync.Mutex
	Events []Event
}

func (l *Log) Add(conn int, kind, data string, n int) int {
	if l == nil {
		return 0
	}
	l.mu.Lock()
	defer l.mu.Unlock()
	l.Events = append(l.Events, Event{Seq: len(l.Events), Conn: conn, Kind: kind, Data: data, N: n})
	return len(l.Events) - 1
}

func (l *Log) Snapshot() []Event {
	l.mu.Lock()
	defer l.mu.Unlock()
	return append([]Event{}, l.Events...)
}

// ScriptConn is an in-memory net.Conn whose reads are scripted.
//
// Preloaded mode (Gated=false): chunks are fixed up front; when they are used up
// Read returns io.EOF. Gated mode: Read blocks while no chunk is queued, until
// Feed or CloseRead is called.
type ScriptConn struct {
	ID    int
	Log   *Log
	Gated bool
	// FullClose: after end of input has been delivered, writes fail (the peer is gone).
	// Otherwise the peer has only half-closed and still reads replies.
	FullClose bool
	// WriteFailAfter >= 0: writes fail once this many bytes have been accepted.
	WriteFailAfter int
	// BlockWrites: Write blocks (the peer has stopped reading and the buffers are full) until UnblockWrites or Close.
	BlockWrites bool
	// OnBlock runs when the server asks for input that has not been sent yet
	// (current chunk exhausted): delivered = bytes handed out so far, out = bytes written so far.
	OnBlock func(delivered int, out []byte)

	mu       sync.Mutex
	cond     *sync.Cond
	queue    [][]byte
	cur      []byte
	readEOF  bool // no more input will come
	eofSeen  bool // EOF has been returned to the server
	closed   bool // closed by the server
	waiting  bool // server is blocked in Read with nothing queued
	wblocked bool // server is blocked in Write
	// Mutated is set when the bytes handed to Write changed while the write was in progress (a blocked write):
	// what the peer receives is then not what was serialized for it.
	mutBefore, mutAfter []byte
	wdeadline           time.Time
	// EOFWithData: the Read that hands out the last bytes of a finished stream returns them together with io.EOF
	EOFWithData bool
	// CloseDelay: Close takes this long
	CloseDelay time.Duration
	// Addr, if set, is the remote address reported (several connections may report the same one)
	Addr string
	// CloseErr, if set, is what Close returns although the connection is closed all the same - as tls.Conn.Close does
	// when the close_notify alert cannot be sent any more.
	CloseErr  error
	wtimeouts int
	delivered int
	out       []byte
	closes    int
	reads     int
	// incremental frame decoding of out
	frames    []resp.Value
	frameEnds []int
	frameErr  error
}

func NewPreloaded(id int, chunks [][]byte) *ScriptConn {
	c := &ScriptConn{ID: id, WriteFailAfter: -1}
	c.cond = sync.NewCond(&c.mu)
	for _, ch := range chunks {
		if len(ch) > 0 {
			c.queue = append(c.queue, ch)
		}
	}
	c.readEOF = true
	return c
}

func NewGated(id int) *ScriptConn {
	c := &ScriptConn{ID: id, Gated: true, WriteFailAfter: -1}
	c.cond = sync.NewCond(&c.mu)
	return c
}

// Chunks splits data according to sizes (remainder = last chunk).
func Chunks(data []byte, sizes []int) [][]byte {
	var out [][]byte
	off := 0
	for _, s := range sizes {
		if s <= 0 || off >= len(data) {
			continue
		}
		end := off + s
		if end > len(data) {
			end = len(data)
		}
		out = append(out, data[off:end])
		off = end
	}
	if off < len(data) {
		out = append(out, data[off:])
	}
	return out
}

// Feed queues a chunk (gated mode).
func (c *ScriptConn) Feed(b []byte) {
	c.mu.Lock()
	if len(b) > 0 {
		c.queue = append(c.queue, append([]byte{}, b...))
		c.waiting = false
	}
	c.cond.Broadcast()
	c.mu.Unlock()
}

// CloseRead signals that no more input will come (the client closed its sending side).
func (c *ScriptConn) CloseRead(full bool) {
	c.mu.Lock()
	c.readEOF = true
	if full {
		c.FullClose = true
	}
	c.cond.Broadcast()
	c.mu.Unlock()
}

func (c *ScriptConn) Read(p []byte) (int, error) {
	c.mu.Lock()
	defer c.mu.Unlock()
	c.reads++
	if len(p) == 0 {
		return 0, nil
	}
	for {
		if c.closed {
			return 0, net.ErrClosed
		}
		if len(c.cur) == 0 && len(c.queue) > 0 && !c.Gated {
			// preloaded: chunk boundary = the moment the server would have to wait
			if c.delivered > 0 || c.reads > 1 {
				c.blockedLocked()
			}
		}
		if len(c.cur) == 0 && len(c.queue) > 0 {
			c.cur, c.queue = c.queue[0], c.queue[1:]
		}
		if len(c.cur) > 0 {
			n := copy(p, c.cur)
			c.cur = c.cur[n:]
			c.delivered += n
			if c.EOFWithData && c.readEOF && len(c.cur) == 0 && len(c.queue) == 0 {
				// the last bytes and the end of the stream in one Read, as the io.Reader contract allows
				c.eofSeen = true
				c.Log.Add(c.ID, "eof", "", c.delivered)
				return n, io.EOF
			}
			return n, nil
		}
		if c.readEOF {
			if !c.eofSeen {
				c.blockedLocked()
				c.eofSeen = true
				c.Log.Add(c.ID, "eof", "", c.delivered)
			}
			return 0, io.EOF
		}
		// gated and nothing queued: the server waits for input
		if !c.waiting {
			c.waiting = true
			c.blockedLocked()
			c.cond.Broadcast()
		}
		c.cond.Wait()
	}
}

func (c *ScriptConn) blockedLocked() {
	c.Log.Add(c.ID, "block", "", c.delivered)
	if c.OnBlock != nil {
		out := c.out
		d := c.delivered
		c.mu.Unlock()
		c.OnBlock(d, out)
		c.mu.Lock()
	}
}

func (c *ScriptConn) Write(p []byte) (int, error) {
	c.mu.Lock()
	defer c.mu.Unlock()
	var snap []byte
	for c.BlockWrites && !c.closed {
		if snap == nil {
			snap = append([]byte{}, p...)
		}
		if !c.wdeadline.IsZero() {
			if !time.Now().Before(c.wdeadline) {
				// the write deadline passed while the peer was not reading: a partial write and a timeout error
				c.wblocked = false
				n := len(p) / 2
				c.out = append(c.out, p[:n]...)
				c.wtimeouts++
				c.Log.Add(c.ID, "write-timeout", "", n)
				c.cond.Broadcast()
				return n, os.ErrDeadlineExceeded
			}
			t := time.AfterFunc(time.Until(c.wdeadline)+time.Millisecond, func() { c.mu.Lock(); c.cond.Broadcast(); c.mu.Unlock() })
			defer t.Stop()
		}
		c.wblocked = true
		c.cond.Broadcast()
		c.cond.Wait()
	}
	c.wblocked = false
	if snap != nil && !bytes.Equal(snap, p) && c.mutBefore == nil {
		c.mutBefore, c.mutAfter = snap, append([]byte{}, p...)
	}
	if c.closed {
		return 0, net.ErrClosed
	}
	if c.FullClose && c.eofSeen {
		return 0, syscall.EPIPE
	}
	if c.WriteFailAfter >= 0 && len(c.out)+len(p) > c.WriteFailAfter {
		n := c.WriteFailAfter - len(c.out)
		if n < 0 {
			n = 0
		}
		c.out = append(c.out, p[:n]...)
		c.Log.Add(c.ID, "write-fail", "", n)
		return n, syscall.ECONNRESET
	}
	c.out = append(c.out, p...)
	c.Log.Add(c.ID, "write", "", len(p))
	c.cond.Broadcast()
	return len(p), nil
}

func (c *ScriptConn) Close() error {
	c.mu.Lock()
	defer c.mu.Unlock()
	c.closes++
	if c.closed {
		return c.CloseErr
	}
	if c.CloseDelay > 0 {
		// a Close that takes its time (tls.Conn waits up to 5 s for its close_notify to be written)
		d := c.CloseDelay
		c.mu.Unlock()
		time.Sleep(d)
		c.mu.Lock()
	}
	c.closed = true
	c.Log.Add(c.ID, "close", "", 0)
	c.cond.Broadcast()
	return c.CloseErr
}

func (c *ScriptConn) LocalAddr() net.Addr { return addr("server") }
func (c *ScriptConn) RemoteAddr() net.Addr {
	if c.Addr != "" {
		return addr(c.Addr) // an address is not a connection identity: net.Pipe connections all report "pipe"
	}
	return addr(fmt.Sprintf("client-%d", c.ID))
}

// Write deadlines are honoured as a net.Conn does: a write that is still blocked at its deadline returns after a
// partial write with a timeout error, and the connection stays usable. (Read deadlines are not modelled.)
func (c *ScriptConn) SetDeadline(t time.Time) error     { return c.SetWriteDeadline(t) }
func (c *ScriptConn) SetReadDeadline(t time.Time) error { return nil }
func (c *ScriptConn) SetWriteDeadline(t time.Time) error {
	c.mu.Lock()
	c.wdeadline = t
	c.cond.Broadcast()
	c.mu.Unlock()
	return nil
}

// WriteTimeouts is the number of writes that ended with a timeout error.
func (c *ScriptConn) WriteTimeouts() int {
	c.mu.Lock()
	defer c.mu.Unlock()
	return c.wtimeouts
}

// WriteDeadline returns the write deadline in force (zero: none).
func (c *ScriptConn) WriteDeadline() time.Time {
	c.mu.Lock()
	defer c.mu.Unlock()
	return c.wdeadline
}

// UnblockWrites lets blocked and future writes proceed.
func (c *ScriptConn) UnblockWrites() {
	c.mu.Lock()
	c.BlockWrites = false
	c.cond.Broadcast()
	c.mu.Unlock()
}

// WaitWriteBlocked waits until the server is blocked in Write on this connection.
func (c *ScriptConn) WaitWriteBlocked(timeout time.Duration) bool {
	timer := time.AfterFunc(timeout, func() { c.mu.Lock(); c.cond.Broadcast(); c.mu.Unlock() })
	defer timer.Stop()
	deadline := time.Now().Add(timeout)
	c.mu.Lock()
	defer c.mu.Unlock()
	for !c.wblocked {
		// the server is waiting for more input (the request was incomplete or produced no reply), or has gone away
		idle := c.waiting && len(c.queue) == 0 && len(c.cur) == 0
		if c.closed || idle || (c.readEOF && c.eofSeen) || time.Now().After(deadline) {
			return false
		}
		c.cond.Wait()
	}
	return true
}

// Mutated reports whether the buffer of a write in progress was modified, with the bytes before and after.
func (c *ScriptConn) Mutated() (before, after []byte, ok bool) {
	c.mu.Lock()
	defer c.mu.Unlock()
	return c.mutBefore, c.mutAfter, c.mutBefore != nil
}

// Out returns a copy of everything written so far.
func (c *ScriptConn) Out() []byte {
	c.mu.Lock()
	defer c.mu.Unlock()
	return append([]byte{}, c.out...)
}

func (c *ScriptConn) Closes() int {
	c.mu.Lock()
	defer c.mu.Unlock()
	return c.closes
}

func (c *ScriptConn) Closed() bool {
	c.mu.Lock()
	defer c.mu.Unlock()
	return c.closed
}

func (c *ScriptConn) Delivered() int {
	c.mu.Lock()
	defer c.mu.Unlock()
	return c.delivered
}

// Frames decodes the output incrementally and returns the complete frames so far,
// their end offsets and the state of the rest (nil, ErrIncomplete or invalid).
func (c *ScriptConn) Frames() ([]resp.Value, []int, error) {
	c.mu.Lock()
	defer c.mu.Unlock()
	return c.framesLocked()
}

func (c *ScriptConn) framesLocked() ([]resp.Value, []int, error) {
	off := 0
	if n := len(c.frameEnds); n > 0 {
		off = c.frameEnds[n-1]
	}
	if _, bad := c.frameErr.(*resp.InvalidError); bad {
		return c.frames, c.frameEnds, c.frameErr
	}
	vs, ends, err := resp.DecodeAll(c.out[off:])
	for i, v := range vs {
		c.frames = append(c.frames, v)
		c.frameEnds = append(c.frameEnds, off+ends[i])
	}
	c.frameErr = err
	return c.frames, c.frameEnds, err
}

// FrameCount is the number of complete reply frames written so far.
func (c *ScriptConn) FrameCount() int {
	vs, _, _ := c.Frames()
	return len(vs)
}

// WaitIdle blocks until the server is waiting for input on this gated connection,
// or the connection was closed by the server, or done is closed. It reports whether
// the connection is idle (true) or gone (false).
func (c *ScriptConn) WaitIdle(done <-chan struct{}, timeout time.Duration) (idle bool, timedOut bool) {
	deadline := time.Now().Add(timeout)
	stop := make(chan struct{})
	defer close(stop)
	go func() {
		select {
		case <-done:
		case <-stop:
			return
		case <-time.After(timeout):
		}
		c.mu.Lock()
		c.cond.Broadcast()
		c.mu.Unlock()
	}()
	c.mu.Lock()
	defer c.mu.Unlock()
	for {
		if c.waiting && len(c.queue) == 0 && len(c.cur) == 0 {
			return true, false
		}
		select {
		case <-done:
			return false, false
		default:
		}
		if c.closed {
			return false, false
		}
		if time.Now().After(deadline) {
			return false, true
		}
		c.cond.Wait()
	}
}

// Server is the subset of *redis.Server the runners need.
type Server interface {
	VerifServeConn(net.Conn) error
}

// Outcome of serving one connection.
type Outcome struct {
	Returned bool
	Err      error
	Panic    any
	Stack    string
	TimedOut bool
}

// Serve runs the real connection loop on conn in a fresh goroutine and waits for it.
// A recovered panic is what would have killed the process: there is no recover
// in the server's accept/connection loops.
func Serve(srv Server, conn net.Conn, timeout time.Duration) Outcome {
	ch := Go(srv, conn)
	select {
	case o := <-ch:
		return o
	case <-time.After(timeout):
		return Outcome{TimedOut: true}
	}
}

// Go starts serving conn and returns the channel on which the outcome arrives.
func Go(srv Server, conn net.Conn) <-chan Outcome {
	ch := make(chan Outcome, 1)
	go func() {
		var o Outcome
		defer func() {
			if r := recover(); r != nil {
				o.Panic = r
				o.Stack = string(debug.Stack())
			}
			ch <- o
		}()
		o.Err = srv.VerifServeConn(conn)
		o.Returned = true
	}()
	return ch
}

// Stacks returns the stacks of all goroutines.
func Stacks() string {
	buf := make([]byte, 1<<20)
	for {
		n := runtime.Stack(buf, true)
		if n < len(buf) {
			return string(buf[:n])
		}
		buf = make([]byte, 2*len(buf))
	}
}

var ErrTimeout = errors.New("timeout")

// Multi drives several gated connections of one server at request granularity.
type Multi struct {
	Srv     Server
	Conns   []*ScriptConn
	ended   []chan struct{}
	mu      sync.Mutex
	out     []*Outcome
	Timeout time.Duration
	Log     *Log
	// SharedAddr, if set, is the remote address every connection opened from now on reports
	SharedAddr string
}

// NewMulti opens n gated connections, each served by its own goroutine, and waits until all are idle.
func NewMulti(srv Server, n int, timeout time.Duration) (*Multi, error) {
	m := &Multi{Srv: srv, Timeout: timeout, Log: &Log{}}
	for i := 0; i < n; i++ {
		if err := m.Open(); err != nil {
			return m, err
		}
	}
	return m, nil
}

// Open adds one more connection and waits until it is idle.
func (m *Multi) Open() error {
	c := NewGated(len(m.Conns))
	c.Log = m.Log
	c.Addr = m.SharedAddr
	i := len(m.Conns)
	m.Conns = append(m.Conns, c)
	ended := make(chan struct{})
	m.ended = append(m.ended, ended)
	m.mu.Lock()
	m.out = append(m.out, nil)
	m.mu.Unlock()
	ch := Go(m.Srv, c)
	go func() {
		o := <-ch
		m.mu.Lock()
		m.out[i] = &o
		m.mu.Unlock()
		close(ended)
	}()
	_, err := m.wait(i)
	return err
}

func (m *Multi) wait(i int) (alive bool, err error) {
	idle, timedOut := m.Conns[i].WaitIdle(m.ended[i], m.Timeout)
	if timedOut {
		return false, ErrTimeout
	}
	if idle {
		return true, nil
	}
	// the connection goroutine is ending: wait for its outcome
	select {
	case <-m.ended[i]:
	case <-time.After(m.Timeout):
		return false, ErrTimeout
	}
	return false, nil
}

// Step delivers one request to connection i and waits until the server is idle on it again
// (or the connection ended). It returns the frames written in response.
func (m *Multi) Step(i int, req []byte) (frames []resp.Value, alive bool, err error) {
	before := m.Conns[i].FrameCount()
	if m.Outcome(i) != nil {
		return nil, false, nil
	}
	m.Conns[i].Feed(req)
	alive, err = m.wait(i)
	all, _, _ := m.Conns[i].Frames()
	if len(all) > before {
		frames = all[before:]
	}
	return frames, alive, err
}

// Outcome of connection i if it has ended.
func (m *Multi) Outcome(i int) *Outcome {
	m.mu.Lock()
	defer m.mu.Unlock()
	return m.out[i]
}

// CloseAll ends every connection (client closes its side) and waits for the goroutines.
func (m *Multi) CloseAll() error {
	for i, c := range m.Conns {
		if m.Outcome(i) == nil {
			c.CloseRead(false)
		}
	}
	for i := range m.Conns {
		select {
		case <-m.ended[i]:
		case <-time.After(m.Timeout):
			return ErrTimeout
		}
	}
	return nil
}
