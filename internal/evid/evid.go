// Package evid collects what a check actually covered and writes the evidence file.
package evid

import (
	"encoding/binary"
	"encoding/json"
	"fmt"
	"hash/fnv"
	"os"
	"path/filepath"
	"sort"
	"strconv"
	"sync"
	"time"
)

// Collector accumulates coverage counters for one property in one process.
type Collector struct {
	mu          sync.Mutex
	Prop        string
	Tier        string
	Seed        int64
	Shard       int
	Level       string
	Rule        string
	Assumptions []string
	start       time.Time
	evals       int64
	hashes      map[uint64]struct{}
	classes     map[string]int64
	excluded    map[string]int64
	samples     []any
	sampleSeen  int64
	exhaustive  map[string]bool
	notes       map[string]any
	violations  int
	maxHashes   int
	counted     int64 // distinct non-trivial cases of product-space enumerations (distinct by construction)
}

// Env reads the tier/seed/shard the driver passed down.
func Env() (tier string, seed int64, shard int) {
	tier = os.Getenv("VERIF_TIER")
	if tier != "thorough" {
		tier = "quick"
	}
	seed = 1
	if s := os.Getenv("VERIF_SEED"); s != "" {
		if n, err := strconv.ParseInt(s, 10, 64); err == nil {
			seed = n
		}
	}
	if s := os.Getenv("VERIF_SHARD"); s != "" {
		shard, _ = strconv.Atoi(s)
	}
	return
}

func New(prop, rule string) *Collector {
	tier, seed, shard := Env()
	return &Collector{
		Prop: prop, Tier: tier, Seed: seed, Shard: shard, Level: "exploration", Rule: rule,
		start:  time.Now(),
		hashes: map[uint64]struct{}{}, classes: map[string]int64{}, excluded: map[string]int64{},
		exhaustive: map[string]bool{}, notes: map[string]any{}, maxHashes: 4 << 20,
	}
}

func Hash(b []byte) uint64 {
	h := fnv.New64a()
	h.Write(b)
	return h.Sum64()
}

// Case records one executed case. canon is the canonical encoding of the case;
// it is hashed into the distinct set only when the case is non-trivial.
func (c *Collector) Case(nontrivial bool, canon []byte, classes ...string) {
	c.mu.Lock()
	defer c.mu.Unlock()
	c.evals++
	if nontrivial {
		c.classes["nontrivial"]++
		if len(c.hashes) < c.maxHashes {
			c.hashes[Hash(canon)] = struct{}{}
		}
	}
	for _, cl := range classes {
		if cl != "" {
			c.classes[cl]++
		}
	}
}

// CaseH is Case with a precomputed hash.
func (c *Collector) CaseH(nontrivial bool, h uint64, classes ...string) {
	c.mu.Lock()
	defer c.mu.Unlock()
	c.evals++
	if nontrivial {
		c.classes["nontrivial"]++
		if len(c.hashes) < c.maxHashes {
			c.hashes[h] = struct{}{}
		}
	}
	for _, cl := range classes {
		if cl != "" {
			c.classes[cl]++
		}
	}
}

// AddEnumerated records cases of a complete enumeration that visits every case exactly once:
// evals cases were executed, nontrivial of them satisfy the rule; they are distinct by construction.
func (c *Collector) AddEnumerated(evals, nontrivial int64) {
	c.mu.Lock()
	c.evals += evals
	c.counted += nontrivial
	c.classes["nontrivial"] += nontrivial
	c.mu.Unlock()
}

func (c *Collector) Class(cl string, n int64) {
	c.mu.Lock()
	c.classes[cl] += n
	c.mu.Unlock()
}

// Excluded counts a case skipped because it falls under a known finding.
func (c *Collector) Excluded(key string) {
	c.mu.Lock()
	c.excluded[key]++
	c.mu.Unlock()
}

// Sample keeps a few of the actual cases (the first ones, then every 2^k-th).
func (c *Collector) Sample(v any) {
	c.mu.Lock()
	defer c.mu.Unlock()
	c.sampleSeen++
	n := c.sampleSeen
	if len(c.samples) < 6 || (n&(n-1) == 0 && len(c.samples) < 24) {
		c.samples = append(c.samples, v)
	}
}

func (c *Collector) WantSample() bool {
	c.mu.Lock()
	defer c.mu.Unlock()
	n := c.sampleSeen + 1
	return len(c.samples) < 6 || (n&(n-1) == 0 && len(c.samples) < 24)
}

func (c *Collector) Exhaustive(space string, complete bool) {
	c.mu.Lock()
	c.exhaustive[space] = complete
	c.mu.Unlock()
}

func (c *Collector) Note(k string, v any) {
	c.mu.Lock()
	c.notes[k] = v
	c.mu.Unlock()
}

func (c *Collector) Violation() {
	c.mu.Lock()
	c.violations++
	c.mu.Unlock()
}

func (c *Collector) Evals() int64 {
	c.mu.Lock()
	defer c.mu.Unlock()
	return c.evals
}

// Part is what one process contributes; the driver merges parts.
type Part struct {
	Prop        string           `json:"property_id"`
	Tier        string           `json:"tier"`
	Seed        int64            `json:"seed"`
	Shard       int              `json:"shard"`
	Level       string           `json:"level"`
	Rule        string           `json:"rule"`
	Assumptions []string         `json:"assumptions"`
	Evals       int64            `json:"evaluations"`
	Distinct    int              `json:"distinct_nontrivial"`
	Classes     map[string]int64 `json:"classes"`
	Excluded    map[string]int64 `json:"excluded_by_known_findings"`
	Samples     []any            `json:"samples"`
	Exhaustive  map[string]bool  `json:"exhaustive_spaces"`
	Notes       map[string]any   `json:"notes"`
	Violations  int              `json:"violations"`
	WallS       float64          `json:"wall_s"`
	HashFile    string           `json:"hash_file"`
	Counted     int64            `json:"counted_distinct"`
}

// WritePart writes <dir>/<prop>.<shard>.part.json and the hash set next to it.
// dir comes from VERIF_PARTS_DIR.
func (c *Collector) WritePart() error {
	dir := os.Getenv("VERIF_PARTS_DIR")
	if dir == "" {
		return fmt.Errorf("VERIF_PARTS_DIR not set")
	}
	c.mu.Lock()
	defer c.mu.Unlock()
	if err := os.MkdirAll(dir, 0o755); err != nil {
		return err
	}
	base := filepath.Join(dir, fmt.Sprintf("%s.%d", c.Prop, c.Shard))
	hs := make([]uint64, 0, len(c.hashes))
	for h := range c.hashes {
		hs = append(hs, h)
	}
	sort.Slice(hs, func(i, j int) bool { return hs[i] < hs[j] })
	buf := make([]byte, 8*len(hs))
	for i, h := range hs {
		binary.LittleEndian.PutUint64(buf[8*i:], h)
	}
	if err := os.WriteFile(base+".hashes", buf, 0o644); err != nil {
		return err
	}
	p := Part{
		Prop: c.Prop, Tier: c.Tier, Seed: c.Seed, Shard: c.Shard, Level: c.Level, Rule: c.Rule,
		Assumptions: c.Assumptions, Evals: c.evals, Distinct: len(c.hashes), Classes: c.classes,
		Excluded: c.excluded, Samples: c.samples, Exhaustive: c.exhaustive, Notes: c.notes,
		Violations: c.violations, WallS: time.Since(c.start).Seconds(), HashFile: base + ".hashes", Counted: c.counted,
	}
	b, err := json.MarshalIndent(p, "", " ")
	if err != nil {
		return err
	}
	return os.WriteFile(base+".part.json", b, 0o644)
}
