// Package sched is the schedule controller: a turnstile installed at the
// server's verif schedule points, and goroutine-profile helpers.
package sched

import (
	"fmt"
	"runtime"
	"strings"
	"sync"
	"time"
)

// Parked is a goroutine held at a schedule point.
type Parked struct {
	Point   string
	release chan struct{}
	once    sync.Once
}

func (p *Parked) Release() { p.once.Do(func() { close(p.release) }) }

// Turnstile parks goroutines that reach a point for which a hold is armed.
type Turnstile struct {
	mu      sync.Mutex
	cond    *sync.Cond
	holds   map[string]int // point -> number of arrivals still to be parked
	parked  []*Parked
	taken   []*Parked      // handed out by WaitParked; still released by ReleaseAll
	Arrived map[string]int // point -> arrivals seen
	Log     []string
}

func NewTurnstile() *Turnstile {
	t := &Turnstile{holds: map[string]int{}, Arrived: map[string]int{}}
	t.cond = sync.NewCond(&t.mu)
	return t
}

// Hook is the function to install with redis.VerifSetPointHook.
func (t *Turnstile) Hook(name string) {
	t.mu.Lock()
	t.Arrived[name]++
	t.Log = append(t.Log, name)
	var p *Parked
	if t.holds[name] > 0 {
		t.holds[name]--
		p = &Parked{Point: name, release: make(chan struct{})}
		t.parked = append(t.parked, p)
	}
	t.cond.Broadcast()
	t.mu.Unlock()
	if p != nil {
		<-p.release
	}
}

// Arm makes the next n arrivals at point park.
func (t *Turnstile) Arm(point string, n int) {
	t.mu.Lock()
	t.holds[point] += n
	t.mu.Unlock()
}

// Disarm cancels holds that have not been consumed.
func (t *Turnstile) Disarm(point string) {
	t.mu.Lock()
	delete(t.holds, point)
	t.mu.Unlock()
}

// WaitParked waits until a goroutine is parked at point and returns it (removing it from the parked list).
func (t *Turnstile) WaitParked(point string, timeout time.Duration) (*Parked, error) {
	deadline := time.Now().Add(timeout)
	timer := time.AfterFunc(timeout, func() { t.mu.Lock(); t.cond.Broadcast(); t.mu.Unlock() })
	defer timer.Stop()
	t.mu.Lock()
	defer t.mu.Unlock()
	for {
		for i, p := range t.parked {
			if p.Point == point {
				t.parked = append(t.parked[:i:i], t.parked[i+1:]...)
				t.taken = append(t.taken, p)
				return p, nil
			}
		}
		if time.Now().After(deadline) {
			return nil, fmt.Errorf("no goroutine parked at %s within %s (arrivals: %v)", point, timeout, t.Arrived)
		}
		t.cond.Wait()
	}
}

// WaitArrivals waits until point has been reached at least n times in total.
func (t *Turnstile) WaitArrivals(point string, n int, timeout time.Duration) error {
	deadline := time.Now().Add(timeout)
	timer := time.AfterFunc(timeout, func() { t.mu.Lock(); t.cond.Broadcast(); t.mu.Unlock() })
	defer timer.Stop()
	t.mu.Lock()
	defer t.mu.Unlock()
	for t.Arrived[point] < n {
		if time.Now().After(deadline) {
			return fmt.Errorf("point %s reached %d times, want %d", point, t.Arrived[point], n)
		}
		t.cond.Wait()
	}
	return nil
}

func (t *Turnstile) Count(point string) int {
	t.mu.Lock()
	defer t.mu.Unlock()
	return t.Arrived[point]
}

// ReleaseAll releases every parked goroutine and cancels all holds.
func (t *Turnstile) ReleaseAll() {
	t.mu.Lock()
	ps := append(t.parked, t.taken...)
	t.parked, t.taken = nil, nil
	t.holds = map[string]int{}
	t.mu.Unlock()
	for _, p := range ps {
		p.Release()
	}
}

// ServerGoroutines returns the stacks of goroutines that have a frame of the server's
// accept/connection machinery.
func ServerGoroutines() []string {
	buf := make([]byte, 1<<20)
	for {
		n := runtime.Stack(buf, true)
		if n < len(buf) {
			buf = buf[:n]
			break
		}
		buf = make([]byte, 2*len(buf))
	}
	var out []string
	for _, g := range strings.Split(string(buf), "\n\n") {
		if strings.Contains(g, "go-redis/redis.(*Server).serve") || strings.Contains(g, "go-redis/redis.(*Server).tlsServe") ||
			strings.Contains(g, "go-redis/redis.(*Server).receive") || strings.Contains(g, "go-redis/redis.(*Server).accept") {
			if strings.Contains(g, "VerifServe") {
				continue // connections driven synchronously by the harness itself
			}
			out = append(out, g)
		}
	}
	return out
}

// SettleNoServerGoroutines polls until no server goroutine is left (a goroutine that has been told to
// end but has not been scheduled yet is not a leak; a leak never settles).
func SettleNoServerGoroutines(budget time.Duration) []string {
	deadline := time.Now().Add(budget)
	for {
		gs := ServerGoroutines()
		if len(gs) == 0 || time.Now().After(deadline) {
			return gs
		}
		time.Sleep(2 * time.Millisecond)
	}
}
