// Package model is a small sequential interpreter of the Redis commands the
// framework supports, written from the Redis command documentation. It serves
// two roles: its primitive operations back the reference store used as a
// handler (package doubles), and its command-level Exec is the oracle that
// framework-derived commands and the bundled example store are compared with.
package model

import (
	"math"
	"sort"
	"strconv"
	"strings"

	"verif/internal/resp"
)

type Kind int

const (
	KString Kind = iota
	KHash
	KList
	KSet
	KZSet
)

func (k Kind) String() string {
	return [...]string{"string", "hash", "list", "set", "zset"}[k]
}

type ZM struct {
	Score  float64
	Member string
}

// Entry is one key's value.
type Entry struct {
	Kind   Kind
	S      string
	Fields []string // hash fields in insertion order
	H      map[string]string
	L      []string
	Set    []string // insertion order
	Z      []ZM     // ordered by (score, member)
}

type DB map[string]*Entry

// Model is the whole store: databases and CONFIG parameters.
type Model struct {
	DBs    map[int]DB
	Config map[string]string
}

func New() *Model { return &Model{DBs: map[int]DB{}, Config: map[string]string{}} }

func (m *Model) DB(id int) DB {
	db, ok := m.DBs[id]
	if !ok {
		db = DB{}
		m.DBs[id] = db
	}
	return db
}

// ---- replies

var (
	OK   = resp.S("OK")
	Null = resp.Nil()
)

func Err(msg string) resp.Value { return resp.E("ERR " + msg) }
func WrongType() resp.Value {
	return resp.E("WRONGTYPE Operation against a key holding the wrong kind of value")
}
func Int(n int) resp.Value     { return resp.I(int64(n)) }
func Bulk(s string) resp.Value { return resp.B(s) }
func Strs(ss []string) resp.Value {
	v := resp.A()
	for _, s := range ss {
		v.Elems = append(v.Elems, resp.B(s))
	}
	return v
}

func FmtFloat(f float64) string {
	if math.IsInf(f, 1) {
		return "inf"
	}
	if math.IsInf(f, -1) {
		return "-inf"
	}
	return strconv.FormatFloat(f, 'g', 17, 64)
}

// ---- primitives (the operations of the handler interface, with Redis semantics)

func (db DB) get(key string, kind Kind) (*Entry, bool, bool) {
	e, ok := db[key]
	if !ok {
		return nil, false, true
	}
	return e, true, e.Kind == kind
}

// SetOpts are the SET options the model implements (expiry is not modelled).
type SetOpts struct{ NX, XX, GET bool }

// Set: reply per the handler interface: NX -> :1/:0 (the SETNX form), GET -> old value or null, else OK (XX failing -> null).
func (db DB) Set(key, val string, o SetOpts) resp.Value {
	e, exists, isStr := db.get(key, KString)
	old := Null
	if exists && isStr {
		old = Bulk(e.S)
	}
	if o.GET && exists && !isStr {
		return WrongType()
	}
	if o.NX && exists {
		if o.GET {
			return old
		}
		return Int(0)
	}
	if o.XX && !exists {
		return Null
	}
	db[key] = &Entry{Kind: KString, S: val}
	switch {
	case o.GET:
		return old
	case o.NX:
		return Int(1)
	}
	return OK
}

func (db DB) Get(key string) resp.Value {
	e, exists, ok := db.get(key, KString)
	if !exists {
		return Null
	}
	if !ok {
		return WrongType()
	}
	return Bulk(e.S)
}

func (db DB) Del(keys []string) resp.Value {
	n := 0
	for _, k := range keys {
		if _, ok := db[k]; ok {
			delete(db, k)
			n++
		}
	}
	return Int(n)
}

func (db DB) Exists(keys []string) resp.Value {
	n := 0
	for _, k := range keys {
		if _, ok := db[k]; ok {
			n++
		}
	}
	return Int(n)
}

func (db DB) Type(key string) resp.Value {
	e, ok := db[key]
	if !ok {
		return resp.S("none")
	}
	return resp.S(e.Kind.String())
}

// GlobMatch: '*' any sequence, '?' exactly one character, everything else literal.
func GlobMatch(p, s string) bool {
	pr, sr := []rune(p), []rune(s)
	var rec func(i, j int) bool
	rec = func(i, j int) bool {
		for i < len(pr) {
			switch pr[i] {
			case '*':
				for i < len(pr) && pr[i] == '*' {
					i++
				}
				if i == len(pr) {
					return true
				}
				for k := j; k <= len(sr); k++ {
					if rec(i, k) {
						return true
					}
				}
				return false
			case '?':
				if j >= len(sr) {
					return false
				}
				i, j = i+1, j+1
			default:
				if j >= len(sr) || sr[j] != pr[i] {
					return false
				}
				i, j = i+1, j+1
			}
		}
		return j == len(sr)
	}
	return rec(0, 0)
}

func (db DB) Keys(pattern string) resp.Value {
	var ks []string
	for k := range db {
		if GlobMatch(pattern, k) {
			ks = append(ks, k)
		}
	}
	sort.Strings(ks)
	return Strs(ks)
}

func (db DB) Rename(key, newkey string, nx bool) resp.Value {
	e, ok := db[key]
	if !ok {
		return Err("no such key")
	}
	if nx {
		if _, exists := db[newkey]; exists {
			return Int(0)
		}
	}
	if key != newkey {
		delete(db, key)
		db[newkey] = e
	}
	if nx {
		return Int(1)
	}
	return OK
}

func (db DB) HSet(key, field, val string, nx bool) resp.Value {
	e, exists, ok := db.get(key, KHash)
	if exists && !ok {
		return WrongType()
	}
	if !exists {
		e = &Entry{Kind: KHash, H: map[string]string{}}
		db[key] = e
	}
	_, has := e.H[field]
	if has && nx {
		return Int(0)
	}
	if !has {
		e.Fields = append(e.Fields, field)
	}
	e.H[field] = val
	if has {
		return Int(0)
	}
	return Int(1)
}

func (db DB) HGet(key, field string) resp.Value {
	e, exists, ok := db.get(key, KHash)
	if !exists {
		return Null
	}
	if !ok {
		return WrongType()
	}
	v, has := e.H[field]
	if !has {
		return Null
	}
	return Bulk(v)
}

func (db DB) HGetAll(key string) resp.Value {
	e, exists, ok := db.get(key, KHash)
	if !exists {
		return resp.A()
	}
	if !ok {
		return WrongType()
	}
	out := resp.A()
	for _, f := range e.Fields {
		out.Elems = append(out.Elems, Bulk(f), Bulk(e.H[f]))
	}
	return out
}

func (db DB) HDel(key string, fields []string) resp.Value {
	e, exists, ok := db.get(key, KHash)
	if !exists {
		return Int(0)
	}
	if !ok {
		return WrongType()
	}
	n := 0
	for _, f := range fields {
		if _, has := e.H[f]; has {
			delete(e.H, f)
			for i, x := range e.Fields {
				if x == f {
					e.Fields = append(e.Fields[:i:i], e.Fields[i+1:]...)
					break
				}
			}
			n++
		}
	}
	if len(e.H) == 0 {
		delete(db, key)
	}
	return Int(n)
}

func (db DB) Push(key string, elems []string, left, x bool) resp.Value {
	e, exists, ok := db.get(key, KList)
	if exists && !ok {
		return WrongType()
	}
	if !exists {
		if x {
			return Int(0)
		}
		e = &Entry{Kind: KList}
		db[key] = e
	}
	for _, el := range elems {
		if left {
			e.L = append([]string{el}, e.L...)
		} else {
			e.L = append(e.L, el)
		}
	}
	return Int(len(e.L))
}

// Pop: count == 1 answers a bulk (the handler interface cannot tell "LPOP k" from "LPOP k 1"), count > 1 an array.
func (db DB) Pop(key string, count int, left bool) resp.Value {
	e, exists, ok := db.get(key, KList)
	if !exists {
		return Null
	}
	if !ok {
		return WrongType()
	}
	if count < 1 {
		return Null
	}
	n := count
	if n > len(e.L) {
		n = len(e.L)
	}
	var popped []string
	for i := 0; i < n; i++ {
		if left {
			popped = append(popped, e.L[0])
			e.L = e.L[1:]
		} else {
			popped = append(popped, e.L[len(e.L)-1])
			e.L = e.L[:len(e.L)-1]
		}
	}
	if len(e.L) == 0 {
		delete(db, key)
	}
	if count == 1 {
		return Bulk(popped[0])
	}
	return Strs(popped)
}

func clampRange(start, stop, n int) (int, int, bool) {
	if start < 0 {
		start += n
	}
	if stop < 0 {
		stop += n
	}
	if start < 0 {
		start = 0
	}
	if stop >= n {
		stop = n - 1
	}
	if start > stop || n == 0 {
		return 0, 0, false
	}
	return start, stop, true
}

func (db DB) LRange(key string, start, stop int) resp.Value {
	e, exists, ok := db.get(key, KList)
	if !exists {
		return resp.A()
	}
	if !ok {
		return WrongType()
	}
	s, t, nonEmpty := clampRange(start, stop, len(e.L))
	if !nonEmpty {
		return resp.A()
	}
	return Strs(e.L[s : t+1])
}

func (db DB) LIndex(key string, idx int) resp.Value {
	e, exists, ok := db.get(key, KList)
	if !exists {
		return Null
	}
	if !ok {
		return WrongType()
	}
	if idx < 0 {
		idx += len(e.L)
	}
	if idx < 0 || idx >= len(e.L) {
		return Null
	}
	return Bulk(e.L[idx])
}

func (db DB) LLen(key string) resp.Value {
	e, exists, ok := db.get(key, KList)
	if !exists {
		return Int(0)
	}
	if !ok {
		return WrongType()
	}
	return Int(len(e.L))
}

func (db DB) SAdd(key string, members []string) resp.Value {
	e, exists, ok := db.get(key, KSet)
	if exists && !ok {
		return WrongType()
	}
	if !exists {
		e = &Entry{Kind: KSet}
		db[key] = e
	}
	n := 0
	for _, m := range members {
		has := false
		for _, x := range e.Set {
			if x == m {
				has = true
			}
		}
		if !has {
			e.Set = append(e.Set, m)
			n++
		}
	}
	return Int(n)
}

func (db DB) SMembers(key string) resp.Value {
	e, exists, ok := db.get(key, KSet)
	if !exists {
		return resp.A()
	}
	if !ok {
		return WrongType()
	}
	return Strs(e.Set)
}

func (db DB) SRem(key string, members []string) resp.Value {
	e, exists, ok := db.get(key, KSet)
	if !exists {
		return Int(0)
	}
	if !ok {
		return WrongType()
	}
	n := 0
	for _, m := range members {
		for i, x := range e.Set {
			if x == m {
				e.Set = append(e.Set[:i:i], e.Set[i+1:]...)
				n++
				break
			}
		}
	}
	if len(e.Set) == 0 {
		delete(db, key)
	}
	return Int(n)
}

func (e *Entry) zsort() {
	sort.SliceStable(e.Z, func(i, j int) bool {
		if e.Z[i].Score != e.Z[j].Score {
			return e.Z[i].Score < e.Z[j].Score
		}
		return e.Z[i].Member < e.Z[j].Member
	})
}

// ZAdd without flags: adds or re-scores; answers the number of new members.
func (db DB) ZAdd(key string, ms []ZM) resp.Value {
	e, exists, ok := db.get(key, KZSet)
	if exists && !ok {
		return WrongType()
	}
	if !exists {
		e = &Entry{Kind: KZSet}
		db[key] = e
	}
	n := 0
	for _, m := range ms {
		found := false
		for i := range e.Z {
			if e.Z[i].Member == m.Member {
				e.Z[i].Score = m.Score
				found = true
			}
		}
		if !found {
			e.Z = append(e.Z, m)
			n++
		}
	}
	e.zsort()
	return Int(n)
}

func (db DB) ZIncrBy(key string, inc float64, member string) resp.Value {
	e, exists, ok := db.get(key, KZSet)
	if exists && !ok {
		return WrongType()
	}
	if !exists {
		e = &Entry{Kind: KZSet}
		db[key] = e
	}
	for i := range e.Z {
		if e.Z[i].Member == member {
			e.Z[i].Score += inc
			s := e.Z[i].Score
			e.zsort()
			return Bulk(FmtFloat(s))
		}
	}
	e.Z = append(e.Z, ZM{inc, member})
	e.zsort()
	return Bulk(FmtFloat(inc))
}

func (db DB) ZScore(key, member string) resp.Value {
	e, exists, ok := db.get(key, KZSet)
	if !exists {
		return Null
	}
	if !ok {
		return WrongType()
	}
	for _, m := range e.Z {
		if m.Member == member {
			return Bulk(FmtFloat(m.Score))
		}
	}
	return Null
}

func (db DB) ZRem(key string, members []string) resp.Value {
	e, exists, ok := db.get(key, KZSet)
	if !exists {
		return Int(0)
	}
	if !ok {
		return WrongType()
	}
	n := 0
	for _, m := range members {
		for i := range e.Z {
			if e.Z[i].Member == m {
				e.Z = append(e.Z[:i:i], e.Z[i+1:]...)
				n++
				break
			}
		}
	}
	if len(e.Z) == 0 {
		delete(db, key)
	}
	return Int(n)
}

// ZOpts are the range options.
type ZOpts struct {
	Rev, WithScores, MinEx, MaxEx bool
	Offset, Count                 int // Count < 0: all
	HasLimit                      bool
}

func zreply(ms []ZM, withScores bool) resp.Value {
	out := resp.A()
	for _, m := range ms {
		out.Elems = append(out.Elems, Bulk(m.Member))
		if withScores {
			out.Elems = append(out.Elems, Bulk(FmtFloat(m.Score)))
		}
	}
	return out
}

func reversed(ms []ZM) []ZM {
	out := make([]ZM, len(ms))
	for i, m := range ms {
		out[len(ms)-1-i] = m
	}
	return out
}

// ZSel is a selected range of a sorted set.
type ZSel struct {
	Members   []ZM
	Ambiguous bool // the selection cuts through a run of equal scores
	Err       *resp.Value
}

func (z ZSel) Reply(withScores bool) resp.Value {
	if z.Err != nil {
		return *z.Err
	}
	return zreply(z.Members, withScores)
}

func (z ZSel) Scores() []float64 {
	out := make([]float64, len(z.Members))
	for i, m := range z.Members {
		out[i] = m.Score
	}
	return out
}

// cut selects all[s:t] and reports whether a boundary falls inside a tie run.
func cut(all []ZM, s, t int) ZSel {
	if s < 0 {
		s = 0
	}
	if t > len(all) {
		t = len(all)
	}
	if s >= t {
		return ZSel{}
	}
	z := ZSel{Members: all[s:t]}
	if s > 0 && all[s-1].Score == all[s].Score {
		z.Ambiguous = true
	}
	if t < len(all) && all[t-1].Score == all[t].Score {
		z.Ambiguous = true
	}
	return z
}

func limitSel(all []ZM, o ZOpts) ZSel {
	if !o.HasLimit {
		return ZSel{Members: all}
	}
	if o.Offset < 0 || o.Offset > len(all) {
		return ZSel{}
	}
	end := len(all)
	if o.Count >= 0 && o.Count < end-o.Offset { // (not Offset+Count < end: the sum overflows for counts near the maximum)
		end = o.Offset + o.Count
	}
	return cut(all, o.Offset, end)
}

// ZRangeSel by index (REV indexes from the highest score).
func (db DB) ZRangeSel(key string, start, stop int, o ZOpts) ZSel {
	e, exists, ok := db.get(key, KZSet)
	if !exists {
		return ZSel{}
	}
	if !ok {
		w := WrongType()
		return ZSel{Err: &w}
	}
	ms := e.Z
	if o.Rev {
		ms = reversed(ms)
	}
	s, t, nonEmpty := clampRange(start, stop, len(ms))
	if !nonEmpty {
		return ZSel{}
	}
	sel := cut(ms, s, t+1)
	if o.HasLimit {
		inner := limitSel(sel.Members, o)
		inner.Ambiguous = inner.Ambiguous || sel.Ambiguous
		return inner
	}
	return sel
}

func (db DB) ZRange(key string, start, stop int, o ZOpts) resp.Value {
	return db.ZRangeSel(key, start, stop, o).Reply(o.WithScores)
}

// ZRangeByScoreSel in ascending order (Rev: descending), then LIMIT.
func (db DB) ZRangeByScoreSel(key string, min, max float64, o ZOpts) ZSel {
	e, exists, ok := db.get(key, KZSet)
	if !exists {
		return ZSel{}
	}
	if !ok {
		w := WrongType()
		return ZSel{Err: &w}
	}
	var ms []ZM
	for _, m := range e.Z {
		if m.Score < min || (o.MinEx && m.Score == min) {
			continue
		}
		if m.Score > max || (o.MaxEx && m.Score == max) {
			continue
		}
		ms = append(ms, m)
	}
	if o.Rev {
		ms = reversed(ms)
	}
	return limitSel(ms, o)
}

func (db DB) ZRangeByScore(key string, min, max float64, o ZOpts) resp.Value {
	return db.ZRangeByScoreSel(key, min, max, o).Reply(o.WithScores)
}

// ---- helpers for Exec

// ParseInt decides whether a stored value is an integer. Redis (string2ll) accepts canonical
// decimal only; forms such as "+5", "007" or "-0" are contested (the framework parses them with
// strconv.Atoi) and the property only demands that NON-integers are rejected, so the model sides
// with the implementation there: everything strconv parses as base-10 int64 is an integer.
func ParseInt(s string) (int64, bool) {
	n, err := strconv.ParseInt(s, 10, 64)
	if err != nil {
		return 0, false
	}
	return n, true
}

func parseBound(s string) (float64, bool, bool) {
	ex := false
	if strings.HasPrefix(s, "(") {
		ex = true
		s = s[1:]
	}
	f, err := strconv.ParseFloat(s, 64)
	if err != nil || math.IsNaN(f) {
		return 0, false, false
	}
	return f, ex, true
}

// Clone returns a deep copy.
func (m *Model) Clone() *Model {
	c := New()
	for k, v := range m.Config {
		c.Config[k] = v
	}
	for id, db := range m.DBs {
		ndb := DB{}
		for k, e := range db {
			ne := *e
			ne.Fields = append([]string{}, e.Fields...)
			ne.L = append([]string{}, e.L...)
			ne.Set = append([]string{}, e.Set...)
			ne.Z = append([]ZM{}, e.Z...)
			if e.H != nil {
				ne.H = map[string]string{}
				for f, v := range e.H {
					ne.H[f] = v
				}
			}
			ndb[k] = &ne
		}
		c.DBs[id] = ndb
	}
	return c
}

// Dump renders the whole state canonically (sets and hashes sorted), for state comparison.
func (m *Model) Dump() string {
	var sb strings.Builder
	var ids []int
	for id := range m.DBs {
		if len(m.DBs[id]) > 0 {
			ids = append(ids, id)
		}
	}
	sort.Ints(ids)
	for _, id := range ids {
		db := m.DBs[id]
		var keys []string
		for k := range db {
			keys = append(keys, k)
		}
		sort.Strings(keys)
		for _, k := range keys {
			e := db[k]
			sb.WriteString("db" + strconv.Itoa(id) + " " + strconv.Quote(k) + " " + e.Kind.String() + " ")
			switch e.Kind {
			case KString:
				sb.WriteString(strconv.Quote(e.S))
			case KHash:
				fs := append([]string{}, e.Fields...)
				sort.Strings(fs)
				for _, f := range fs {
					sb.WriteString(strconv.Quote(f) + "=" + strconv.Quote(e.H[f]) + ",")
				}
			case KList:
				for _, x := range e.L {
					sb.WriteString(strconv.Quote(x) + ",")
				}
			case KSet:
				ms := append([]string{}, e.Set...)
				sort.Strings(ms)
				for _, x := range ms {
					sb.WriteString(strconv.Quote(x) + ",")
				}
			case KZSet:
				for _, x := range e.Z {
					sb.WriteString(FmtFloat(x.Score) + ":" + strconv.Quote(x.Member) + ",")
				}
			}
			sb.WriteString("\n")
		}
	}
	return sb.String()
}
