package model

import (
	"math"
	"strconv"
	"strings"

	"verif/internal/resp"
)

// Compare modes for replies (see DESIGN.md 3.5).
const (
	CmpExact    = "exact"
	CmpMultiset = "multiset" // unordered flat array
	CmpPairs    = "pairs"    // unordered array of field/value pairs
	CmpZSet     = "zset"     // ordered by score; ties may permute
	CmpZSetWS   = "zset-ws"  // same, with scores interleaved
	CmpSkip     = "skip"     // only "not an error" is required
)

// Result of executing one command in the model.
type Result struct {
	Reply resp.Value
	Cmp   string
	// sorted-set replies: score of each member of Reply (in order), direction, and whether the
	// selected range cuts through a run of equal scores (then which members are selected is not
	// determined by "ordered by score" and only the shape is compared)
	ZScores   []float64
	ZRev      bool
	Ambiguous bool
}

func exact(v resp.Value) Result { return Result{Reply: v, Cmp: CmpExact} }

func atoi(s string) (int, bool) {
	n, err := strconv.Atoi(s)
	return n, err == nil
}

// Exec runs one command (args[0] = name, any case) against database db.
// Commands outside the model answer an error.
func (m *Model) Exec(dbid int, args []string) Result {
	if len(args) == 0 {
		return exact(Err("empty command"))
	}
	db := m.DB(dbid)
	name := strings.ToUpper(args[0])
	a := args[1:]
	argErr := exact(Err("wrong number of arguments for '" + strings.ToLower(name) + "' command"))
	notInt := exact(Err("value is not an integer or out of range"))
	need := func(n int) bool { return len(a) == n }
	switch name {
	case "PING":
		if len(a) == 0 {
			return exact(resp.S("PONG"))
		}
		if len(a) == 1 {
			return exact(Bulk(a[0]))
		}
		return argErr
	case "ECHO":
		if !need(1) {
			return argErr
		}
		return exact(Bulk(a[0]))
	case "CONFIG":
		if len(a) < 2 {
			return argErr
		}
		switch strings.ToUpper(a[0]) {
		case "SET":
			if len(a[1:])%2 != 0 {
				return argErr
			}
			for i := 1; i+1 < len(a); i += 2 {
				m.Config[a[i]] = a[i+1]
			}
			return exact(OK)
		case "GET":
			out := resp.A()
			allSet := true
			for _, n := range a[1:] {
				v, ok := m.Config[n]
				if !ok {
					allSet = false
				}
				out.Elems = append(out.Elems, Bulk(n), Bulk(v))
			}
			if !allSet {
				return Result{Reply: out, Cmp: CmpSkip} // parameters never set: absent or empty are both accepted
			}
			return exact(out)
		}
		return argErr
	case "DEL":
		if len(a) < 1 {
			return argErr
		}
		return exact(db.Del(a))
	case "EXISTS":
		if len(a) < 1 {
			return argErr
		}
		return exact(db.Exists(a))
	case "TYPE":
		if !need(1) {
			return argErr
		}
		return exact(db.Type(a[0]))
	case "KEYS":
		if !need(1) {
			return argErr
		}
		return Result{Reply: db.Keys(a[0]), Cmp: CmpMultiset}
	case "RENAME", "RENAMENX":
		if !need(2) {
			return argErr
		}
		return exact(db.Rename(a[0], a[1], name == "RENAMENX"))
	case "GET":
		if !need(1) {
			return argErr
		}
		return exact(db.Get(a[0]))
	case "SET":
		if len(a) < 2 {
			return argErr
		}
		o := SetOpts{}
		for _, t := range a[2:] {
			switch strings.ToUpper(t) {
			case "NX":
				o.NX = true
			case "XX":
				o.XX = true
			case "GET":
				o.GET = true
			default:
				return exact(Err("syntax error"))
			}
		}
		return exact(db.Set(a[0], a[1], o))
	case "SETNX":
		if !need(2) {
			return argErr
		}
		return exact(db.Set(a[0], a[1], SetOpts{NX: true}))
	case "GETSET":
		if !need(2) {
			return argErr
		}
		return exact(db.Set(a[0], a[1], SetOpts{GET: true}))
	case "MSET", "MSETNX":
		if len(a) == 0 || len(a)%2 != 0 {
			return argErr
		}
		if name == "MSETNX" {
			for i := 0; i < len(a); i += 2 {
				if _, ok := db[a[i]]; ok {
					return exact(Int(0))
				}
			}
		}
		for i := 0; i < len(a); i += 2 {
			db[a[i]] = &Entry{Kind: KString, S: a[i+1]}
		}
		if name == "MSETNX" {
			return exact(Int(1))
		}
		return exact(OK)
	case "MGET":
		if len(a) < 1 {
			return argErr
		}
		out := resp.A()
		for _, k := range a {
			v := db.Get(k)
			if v.IsError() {
				v = Null
			}
			out.Elems = append(out.Elems, v)
		}
		return exact(out)
	case "APPEND":
		if !need(2) {
			return argErr
		}
		e, exists, ok := db.get(a[0], KString)
		if exists && !ok {
			return exact(WrongType())
		}
		if !exists {
			e = &Entry{Kind: KString}
			db[a[0]] = e
		}
		e.S += a[1]
		return exact(Int(len(e.S)))
	case "INCR", "DECR", "INCRBY", "DECRBY":
		var delta int64 = 1
		if name == "INCRBY" || name == "DECRBY" {
			if !need(2) {
				return argErr
			}
			d, err := strconv.ParseInt(a[1], 10, 64)
			if err != nil {
				return notInt
			}
			delta = d
		} else if !need(1) {
			return argErr
		}
		if name == "DECR" || name == "DECRBY" {
			if delta == math.MinInt64 {
				return notInt // cannot be negated
			}
			delta = -delta
		}
		e, exists, ok := db.get(a[0], KString)
		if exists && !ok {
			return exact(WrongType())
		}
		var cur int64
		if exists {
			c, isInt := ParseInt(e.S)
			if !isInt {
				return notInt
			}
			cur = c
		}
		if (delta > 0 && cur > math.MaxInt64-delta) || (delta < 0 && cur < math.MinInt64-delta) {
			return exact(Err("increment or decrement would overflow"))
		}
		cur += delta
		db[a[0]] = &Entry{Kind: KString, S: strconv.FormatInt(cur, 10)}
		return exact(resp.I(cur))
	case "STRLEN":
		if !need(1) {
			return argErr
		}
		v := db.Get(a[0])
		if v.IsError() {
			return exact(v)
		}
		return exact(Int(len(v.Data)))
	case "GETRANGE", "SUBSTR":
		if !need(3) {
			return argErr
		}
		start, ok1 := atoi(a[1])
		end, ok2 := atoi(a[2])
		if !ok1 || !ok2 {
			return notInt
		}
		v := db.Get(a[0])
		if v.IsError() {
			return exact(v)
		}
		s := string(v.Data)
		n := len(s)
		if start < 0 && end < 0 && start > end {
			return exact(Bulk(""))
		}
		if start < 0 {
			start += n
		}
		if end < 0 {
			end += n
		}
		if start < 0 {
			start = 0
		}
		if end < 0 {
			end = 0
		}
		if end >= n {
			end = n - 1
		}
		if n == 0 || start > end {
			return exact(Bulk(""))
		}
		return exact(Bulk(s[start : end+1]))
	case "HSET", "HSETNX":
		if !need(3) {
			return argErr
		}
		return exact(db.HSet(a[0], a[1], a[2], name == "HSETNX"))
	case "HGET":
		if !need(2) {
			return argErr
		}
		return exact(db.HGet(a[0], a[1]))
	case "HGETALL":
		if !need(1) {
			return argErr
		}
		return Result{Reply: db.HGetAll(a[0]), Cmp: CmpPairs}
	case "HDEL":
		if len(a) < 2 {
			return argErr
		}
		return exact(db.HDel(a[0], a[1:]))
	case "HMSET":
		if len(a) < 3 || len(a[1:])%2 != 0 {
			return argErr
		}
		for i := 1; i+1 < len(a); i += 2 {
			if r := db.HSet(a[0], a[i], a[i+1], false); r.IsError() {
				return exact(r)
			}
		}
		return exact(OK)
	case "HMGET":
		if len(a) < 2 {
			return argErr
		}
		out := resp.A()
		for _, f := range a[1:] {
			out.Elems = append(out.Elems, db.HGet(a[0], f))
		}
		return exact(out)
	case "HEXISTS":
		if !need(2) {
			return argErr
		}
		if v := db.HGet(a[0], a[1]); v.Null {
			return exact(Int(0))
		}
		return exact(Int(1))
	case "HSTRLEN":
		if !need(2) {
			return argErr
		}
		return exact(Int(len(db.HGet(a[0], a[1]).Data)))
	case "HKEYS", "HVALS", "HLEN":
		if !need(1) {
			return argErr
		}
		all := db.HGetAll(a[0])
		if all.IsError() {
			return exact(all)
		}
		out := resp.A()
		for i := 0; i+1 < len(all.Elems); i += 2 {
			if name == "HKEYS" {
				out.Elems = append(out.Elems, all.Elems[i])
			} else {
				out.Elems = append(out.Elems, all.Elems[i+1])
			}
		}
		if name == "HLEN" {
			return exact(Int(len(out.Elems)))
		}
		return Result{Reply: out, Cmp: CmpMultiset}
	case "LPUSH", "RPUSH", "LPUSHX", "RPUSHX":
		if len(a) < 2 {
			return argErr
		}
		return exact(db.Push(a[0], a[1:], name[0] == 'L', strings.HasSuffix(name, "X")))
	case "LPOP", "RPOP":
		if len(a) < 1 || len(a) > 2 {
			return argErr
		}
		count := 1
		if len(a) == 2 {
			c, ok := atoi(a[1])
			if !ok || c < 0 {
				return notInt
			}
			count = c
		}
		return exact(db.Pop(a[0], count, name[0] == 'L'))
	case "LRANGE":
		if !need(3) {
			return argErr
		}
		s, ok1 := atoi(a[1])
		t, ok2 := atoi(a[2])
		if !ok1 || !ok2 {
			return notInt
		}
		return exact(db.LRange(a[0], s, t))
	case "LINDEX":
		if !need(2) {
			return argErr
		}
		i, ok := atoi(a[1])
		if !ok {
			return notInt
		}
		return exact(db.LIndex(a[0], i))
	case "LLEN":
		if !need(1) {
			return argErr
		}
		return exact(db.LLen(a[0]))
	case "SADD", "SREM":
		if len(a) < 2 {
			return argErr
		}
		if name == "SADD" {
			return exact(db.SAdd(a[0], a[1:]))
		}
		return exact(db.SRem(a[0], a[1:]))
	case "SMEMBERS":
		if !need(1) {
			return argErr
		}
		return Result{Reply: db.SMembers(a[0]), Cmp: CmpMultiset}
	case "SCARD":
		if !need(1) {
			return argErr
		}
		return exact(Int(len(db.SMembers(a[0]).Elems)))
	case "SISMEMBER":
		if !need(2) {
			return argErr
		}
		for _, x := range db.SMembers(a[0]).Elems {
			if string(x.Data) == a[1] {
				return exact(Int(1))
			}
		}
		return exact(Int(0))
	case "ZADD":
		if len(a) < 3 || len(a[1:])%2 != 0 {
			return argErr
		}
		var ms []ZM
		for i := 1; i+1 < len(a); i += 2 {
			f, err := strconv.ParseFloat(a[i], 64)
			if err != nil || math.IsNaN(f) {
				return exact(Err("value is not a valid float"))
			}
			ms = append(ms, ZM{f, a[i+1]})
		}
		return exact(db.ZAdd(a[0], ms))
	case "ZINCRBY":
		if !need(3) {
			return argErr
		}
		f, err := strconv.ParseFloat(a[1], 64)
		if err != nil || math.IsNaN(f) {
			return exact(Err("value is not a valid float"))
		}
		return exact(db.ZIncrBy(a[0], f, a[2]))
	case "ZSCORE":
		if !need(2) {
			return argErr
		}
		return exact(db.ZScore(a[0], a[1]))
	case "ZREM":
		if len(a) < 2 {
			return argErr
		}
		return exact(db.ZRem(a[0], a[1:]))
	case "ZCARD":
		if !need(1) {
			return argErr
		}
		return exact(Int(len(db.ZRange(a[0], 0, -1, ZOpts{}).Elems)))
	case "ZRANGE", "ZREVRANGE", "ZRANGEBYSCORE", "ZREVRANGEBYSCORE":
		if len(a) < 3 {
			return argErr
		}
		o := ZOpts{Count: -1}
		byScore := name == "ZRANGEBYSCORE" || name == "ZREVRANGEBYSCORE"
		for i := 3; i < len(a); i++ {
			switch strings.ToUpper(a[i]) {
			case "WITHSCORES":
				o.WithScores = true
			case "REV":
				o.Rev = true
			case "BYSCORE":
				byScore = true
			case "LIMIT":
				if i+2 >= len(a) {
					return exact(Err("syntax error"))
				}
				off, ok1 := atoi(a[i+1])
				cnt, ok2 := atoi(a[i+2])
				if !ok1 || !ok2 {
					return notInt
				}
				o.Offset, o.Count, o.HasLimit = off, cnt, true
				i += 2
			default:
				return exact(Err("syntax error"))
			}
		}
		cmp := CmpZSet
		if o.WithScores {
			cmp = CmpZSetWS
		}
		if name == "ZREVRANGE" || name == "ZREVRANGEBYSCORE" {
			o.Rev = true
		}
		if byScore {
			lo, hi := a[1], a[2]
			if name == "ZREVRANGEBYSCORE" {
				lo, hi = a[2], a[1]
			}
			min, minEx, ok1 := parseBound(lo)
			max, maxEx, ok2 := parseBound(hi)
			if !ok1 || !ok2 {
				return exact(Err("min or max is not a float"))
			}
			o.MinEx, o.MaxEx = minEx, maxEx
			sel := db.ZRangeByScoreSel(a[0], min, max, o)
			return Result{Reply: sel.Reply(o.WithScores), Cmp: cmp, ZScores: sel.Scores(), ZRev: o.Rev, Ambiguous: sel.Ambiguous}
		}
		s, ok1 := atoi(a[1])
		t, ok2 := atoi(a[2])
		if !ok1 || !ok2 {
			return notInt
		}
		sel := db.ZRangeSel(a[0], s, t, o)
		return Result{Reply: sel.Reply(o.WithScores), Cmp: cmp, ZScores: sel.Scores(), ZRev: o.Rev, Ambiguous: sel.Ambiguous}
	}
	return exact(Err("unknown command '" + args[0] + "'"))
}

// ---- reply comparison (DESIGN.md 3.5)

func scalarEq(a, b resp.Value) bool {
	as, aok := a.Str()
	bs, bok := b.Str()
	if aok && bok {
		return as == bs // status and bulk compare as byte strings
	}
	if a.Kind == resp.Bulk && b.Kind == resp.Bulk && a.Null && b.Null {
		return true
	}
	if a.Kind == resp.Integer && b.Kind == resp.Integer {
		return string(a.Data) == string(b.Data)
	}
	if a.Kind == resp.Array && b.Kind == resp.Array {
		if len(a.Elems) != len(b.Elems) {
			return false
		}
		for i := range a.Elems {
			if !scalarEq(a.Elems[i], b.Elems[i]) {
				return false
			}
		}
		return true
	}
	return false
}

func floatEq(a, b resp.Value) bool {
	as, ok1 := a.Str()
	bs, ok2 := b.Str()
	if !ok1 || !ok2 {
		return false
	}
	af, err1 := strconv.ParseFloat(as, 64)
	bf, err2 := strconv.ParseFloat(bs, 64)
	return err1 == nil && err2 == nil && af == bf
}

func multisetEq(a, b []string) bool {
	if len(a) != len(b) {
		return false
	}
	cnt := map[string]int{}
	for _, x := range a {
		cnt[x]++
	}
	for _, x := range b {
		cnt[x]--
		if cnt[x] < 0 {
			return false
		}
	}
	return true
}

func flat(v resp.Value, step int) ([]string, bool) {
	if v.Kind != resp.Array || len(v.Elems)%step != 0 {
		return nil, false
	}
	var out []string
	for i := 0; i < len(v.Elems); i += step {
		var parts []string
		for j := 0; j < step; j++ {
			s, ok := v.Elems[i+j].Str()
			if !ok {
				return nil, false
			}
			parts = append(parts, strconv.Quote(s))
		}
		out = append(out, strings.Join(parts, "="))
	}
	return out, true
}

// Equal reports whether got is an acceptable reply given the model's result.
func Equal(want Result, got resp.Value) bool {
	if want.Reply.IsError() {
		return got.IsError() // error texts are never compared
	}
	if got.IsError() {
		return false
	}
	switch want.Cmp {
	case CmpSkip:
		return true
	case CmpMultiset, CmpPairs:
		step := 1
		if want.Cmp == CmpPairs {
			step = 2
		}
		a, ok1 := flat(want.Reply, step)
		b, ok2 := flat(got, step)
		return ok1 && ok2 && multisetEq(a, b)
	case CmpZSet, CmpZSetWS:
		return zsetEqual(want, got)
	}
	// exact, with float tolerance for bulk scores: equal byte strings or equal as floats
	if scalarEq(want.Reply, got) {
		return true
	}
	if want.Reply.Kind == resp.Bulk && !want.Reply.Null && floatEq(want.Reply, got) {
		if _, err := strconv.ParseFloat(string(want.Reply.Data), 64); err == nil {
			return true
		}
	}
	return false
}

func zsetEqual(want Result, got resp.Value) bool {
	step := 1
	if want.Cmp == CmpZSetWS {
		step = 2
	}
	if got.Kind != resp.Array || len(got.Elems) != len(want.Reply.Elems) || len(got.Elems)%step != 0 {
		return false
	}
	type pair struct {
		m string
		s float64
	}
	var gp []pair
	for i := 0; i < len(got.Elems); i += step {
		m, ok := got.Elems[i].Str()
		if !ok {
			return false
		}
		p := pair{m: m}
		if step == 2 {
			ss, ok := got.Elems[i+1].Str()
			if !ok {
				return false
			}
			f, err := strconv.ParseFloat(ss, 64)
			if err != nil {
				return false
			}
			p.s = f
		}
		gp = append(gp, p)
	}
	if want.Ambiguous {
		return true
	}
	score := map[string]float64{}
	var wm, gm []string
	for i := 0; i < len(want.Reply.Elems); i += step {
		m, _ := want.Reply.Elems[i].Str()
		score[m] = want.ZScores[i/step]
		wm = append(wm, m)
	}
	for _, p := range gp {
		gm = append(gm, p.m)
		ws, ok := score[p.m]
		if !ok || (step == 2 && ws != p.s) {
			return false
		}
	}
	if !multisetEq(wm, gm) {
		return false
	}
	for i := 1; i < len(gp); i++ {
		a, b := score[gp[i-1].m], score[gp[i].m]
		if (!want.ZRev && a > b) || (want.ZRev && a < b) {
			return false
		}
	}
	return true
}
