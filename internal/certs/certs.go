// Package certs generates a small PKI at run time: a root CA, an intermediate CA,
// and leaf certificates with chosen common names / validity, plus a foreign CA.
package certs

import (
	"crypto/ecdsa"
	"crypto/elliptic"
	"crypto/rand"
	"crypto/tls"
	"crypto/x509"
	"crypto/x509/pkix"
	"encoding/pem"
	"math/big"
	"net"
	"time"
)

type Pair struct {
	Cert    *x509.Certificate
	Key     *ecdsa.PrivateKey
	CertPEM []byte
	KeyPEM  []byte
	Chain   [][]byte // DER chain to present (leaf first)
}

var serial int64 = 1000

func issue(cn string, parent *Pair, isCA bool, notBefore, notAfter time.Time, server bool) *Pair {
	key, err := ecdsa.GenerateKey(elliptic.P256(), rand.Reader)
	if err != nil {
		panic(err)
	}
	serial++
	tpl := &x509.Certificate{
		SerialNumber:          big.NewInt(serial),
		Subject:               pkix.Name{CommonName: cn, Organization: []string{"verif"}},
		NotBefore:             notBefore,
		NotAfter:              notAfter,
		BasicConstraintsValid: true,
		IsCA:                  isCA,
		KeyUsage:              x509.KeyUsageDigitalSignature,
	}
	if isCA {
		tpl.KeyUsage |= x509.KeyUsageCertSign
	} else if server {
		tpl.ExtKeyUsage = []x509.ExtKeyUsage{x509.ExtKeyUsageServerAuth}
		tpl.DNSNames = []string{"localhost"}
		tpl.IPAddresses = []net.IP{net.ParseIP("127.0.0.1")}
	} else {
		tpl.ExtKeyUsage = []x509.ExtKeyUsage{x509.ExtKeyUsageClientAuth}
	}
	signer, signerKey := tpl, key
	if parent != nil {
		signer, signerKey = parent.Cert, parent.Key
	}
	der, err := x509.CreateCertificate(rand.Reader, tpl, signer, &key.PublicKey, signerKey)
	if err != nil {
		panic(err)
	}
	cert, _ := x509.ParseCertificate(der)
	kb, _ := x509.MarshalECPrivateKey(key)
	p := &Pair{Cert: cert, Key: key,
		CertPEM: pem.EncodeToMemory(&pem.Block{Type: "CERTIFICATE", Bytes: der}),
		KeyPEM:  pem.EncodeToMemory(&pem.Block{Type: "EC PRIVATE KEY", Bytes: kb}),
		Chain:   [][]byte{der}}
	if parent != nil && parent.Cert.Subject.CommonName != "" && len(parent.Chain) > 0 && !isRoot(parent) {
		p.Chain = append(p.Chain, parent.Chain...)
	}
	return p
}

func isRoot(p *Pair) bool { return p.Cert.Subject.String() == p.Cert.Issuer.String() }

// PKI is the generated material.
type PKI struct {
	Root, Foreign *Pair
	Intermediate  *Pair // CN = the rule name (an issuer that carries the name)
	Server        *Pair
	now           time.Time
}

func New(ruleName string) *PKI {
	now := time.Now()
	p := &PKI{now: now}
	p.Root = issue("verif-root", nil, true, now.Add(-time.Hour), now.Add(24*time.Hour), false)
	p.Foreign = issue("foreign-root", nil, true, now.Add(-time.Hour), now.Add(24*time.Hour), false)
	p.Intermediate = issue(ruleName, p.Root, true, now.Add(-time.Hour), now.Add(24*time.Hour), false)
	p.Server = issue("localhost", p.Root, false, now.Add(-time.Hour), now.Add(24*time.Hour), true)
	return p
}

// Client issues a client certificate.
func (p *PKI) Client(cn string, issuer *Pair, expired bool) *Pair {
	nb, na := p.now.Add(-time.Hour), p.now.Add(24*time.Hour)
	if expired {
		nb, na = p.now.Add(-48*time.Hour), p.now.Add(-24*time.Hour)
	}
	return issue(cn, issuer, false, nb, na, false)
}

// ClientValidity issues a client certificate with the given validity period.
func (p *PKI) ClientValidity(cn string, issuer *Pair, notBefore, notAfter time.Time) *Pair {
	return issue(cn, issuer, false, notBefore, notAfter, false)
}

// SelfSigned issues a self-signed client certificate.
func (p *PKI) SelfSigned(cn string) *Pair {
	return issue(cn, nil, false, p.now.Add(-time.Hour), p.now.Add(24*time.Hour), false)
}

// TLSCert converts a pair (with its chain) into a tls.Certificate.
func (c *Pair) TLSCert() tls.Certificate {
	return tls.Certificate{Certificate: c.Chain, PrivateKey: c.Key}
}

// ClientConfig builds the TLS configuration of a client.
func (p *PKI) ClientConfig(c *Pair) *tls.Config {
	pool := x509.NewCertPool()
	pool.AddCert(p.Root.Cert)
	cfg := &tls.Config{RootCAs: pool, ServerName: "localhost", MinVersion: tls.VersionTLS12}
	if c != nil {
		cfg.Certificates = []tls.Certificate{c.TLSCert()}
	}
	return cfg
}
