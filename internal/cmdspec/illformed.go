package cmdspec

import "strings"

// Param kinds of the positional schema.
type P int

const (
	PK   P = iota // key
	PS            // string value
	PI            // integer
	PF            // float
	PB            // score bound (float, optionally prefixed by '(')
	PPI           // positive integer (seconds)
	PIdx          // integer index (ZRANGE without BYSCORE)
)

// Tail kinds.
const (
	TNone = iota
	TStrs // one or more strings
	TPairs
	TScoreMembers
)

// Schema is the positional shape of a command: fixed sub-command tokens, required positions, variadic tail.
type Schema struct {
	Name string
	Pre  []string
	Pos  []P
	Tail int
}

// Schemas lists the positional shape of every command that has required arguments.
var Schemas = []Schema{
	{"AUTH", nil, []P{PS}, TNone},
	{"ECHO", nil, []P{PS}, TNone},
	{"SELECT", nil, []P{PI}, TNone},
	{"CONFIG", []string{"SET"}, nil, TPairs},
	{"CONFIG", []string{"GET"}, nil, TStrs},
	{"DEL", nil, nil, TStrs}, {"EXISTS", nil, nil, TStrs},
	{"EXPIRE", nil, []P{PK, PI}, TNone}, {"EXPIREAT", nil, []P{PK, PI}, TNone},
	{"KEYS", nil, []P{PS}, TNone}, {"TYPE", nil, []P{PK}, TNone}, {"TTL", nil, []P{PK}, TNone},
	{"RENAME", nil, []P{PK, PK}, TNone}, {"RENAMENX", nil, []P{PK, PK}, TNone},
	{"SCAN", nil, []P{PI}, TNone},
	{"GET", nil, []P{PK}, TNone}, {"SET", nil, []P{PK, PS}, TNone}, {"SETEX", nil, []P{PK, PPI, PS}, TNone},
	{"SETNX", nil, []P{PK, PS}, TNone}, {"GETSET", nil, []P{PK, PS}, TNone},
	{"MSET", nil, nil, TPairs}, {"MSETNX", nil, nil, TPairs}, {"MGET", nil, nil, TStrs},
	{"APPEND", nil, []P{PK, PS}, TNone}, {"INCR", nil, []P{PK}, TNone}, {"DECR", nil, []P{PK}, TNone},
	{"INCRBY", nil, []P{PK, PI}, TNone}, {"DECRBY", nil, []P{PK, PI}, TNone}, {"STRLEN", nil, []P{PK}, TNone},
	{"GETRANGE", nil, []P{PK, PI, PI}, TNone}, {"SUBSTR", nil, []P{PK, PI, PI}, TNone},
	{"HSET", nil, []P{PK, PS, PS}, TNone}, {"HSETNX", nil, []P{PK, PS, PS}, TNone}, {"HGET", nil, []P{PK, PS}, TNone},
	{"HGETALL", nil, []P{PK}, TNone}, {"HDEL", nil, []P{PK}, TStrs}, {"HMSET", nil, []P{PK}, TPairs}, {"HMGET", nil, []P{PK}, TStrs},
	{"HEXISTS", nil, []P{PK, PS}, TNone}, {"HSTRLEN", nil, []P{PK, PS}, TNone},
	{"HKEYS", nil, []P{PK}, TNone}, {"HVALS", nil, []P{PK}, TNone}, {"HLEN", nil, []P{PK}, TNone},
	{"LPUSH", nil, []P{PK}, TStrs}, {"RPUSH", nil, []P{PK}, TStrs}, {"LPUSHX", nil, []P{PK}, TStrs}, {"RPUSHX", nil, []P{PK}, TStrs},
	{"LPOP", nil, []P{PK}, TNone}, {"RPOP", nil, []P{PK}, TNone},
	{"LRANGE", nil, []P{PK, PI, PI}, TNone}, {"LINDEX", nil, []P{PK, PI}, TNone}, {"LLEN", nil, []P{PK}, TNone},
	{"SADD", nil, []P{PK}, TStrs}, {"SREM", nil, []P{PK}, TStrs}, {"SMEMBERS", nil, []P{PK}, TNone}, {"SCARD", nil, []P{PK}, TNone},
	{"SISMEMBER", nil, []P{PK, PS}, TNone},
	{"ZADD", nil, []P{PK}, TScoreMembers}, {"ZINCRBY", nil, []P{PK, PF, PS}, TNone}, {"ZSCORE", nil, []P{PK, PS}, TNone},
	{"ZREM", nil, []P{PK}, TStrs}, {"ZRANGE", nil, []P{PK, PIdx, PIdx}, TNone}, {"ZRANGEBYSCORE", nil, []P{PK, PB, PB}, TNone},
	{"ZREVRANGE", nil, []P{PK, PI, PI}, TNone}, {"ZREVRANGEBYSCORE", nil, []P{PK, PB, PB}, TNone}, {"ZCARD", nil, []P{PK}, TNone},
}

// Ill is one ill-formed request. A nil argument stands for a null bulk.
type Ill struct {
	Name string   `json:"name"`
	Args [][]byte `json:"-"`
	Kind string   `json:"kind"` // corruption kind
	Pos  int      `json:"pos"`  // position concerned (index into the argument vector, command name = 0)
}

func validTok(p P) string {
	switch p {
	case PK:
		return "ik"
	case PS:
		return "iv"
	case PI, PIdx:
		return "2"
	case PF:
		return "1.5"
	case PB:
		return "(1.5"
	case PPI:
		return "10"
	}
	return "x"
}

var badInts = []string{"abc", "1.5", "", "99999999999999999999", "9223372036854775808", "9999999999999999999", "-9223372036854775809", " 1", "1 ", "0x10", "1e3", "(5"}
var badFloats = []string{"abc", "", "1.5.2", "--1", "(5", "(-1.5", "(inf", " 1", "1 "}
var badBounds = []string{"abc", "", "(", "(abc"}

// minimal returns a minimal well-formed vector of the schema and the kind of each argument (P or -1 for fixed tokens / tail strings).
func (s Schema) minimal(extraTail int) (args []string, kinds []int) {
	args = append(args, s.Name)
	kinds = append(kinds, -1)
	for _, t := range s.Pre {
		args = append(args, t)
		kinds = append(kinds, -2)
	}
	for _, p := range s.Pos {
		args = append(args, validTok(p))
		kinds = append(kinds, int(p))
	}
	n := 1 + extraTail
	switch s.Tail {
	case TStrs:
		for i := 0; i < n; i++ {
			args = append(args, "e"+string(rune('a'+i)))
			kinds = append(kinds, int(PS))
		}
	case TPairs:
		for i := 0; i < n; i++ {
			args = append(args, "f"+string(rune('a'+i)), "v"+string(rune('a'+i)))
			kinds = append(kinds, int(PK), int(PS))
		}
	case TScoreMembers:
		for i := 0; i < n; i++ {
			args = append(args, "1.5", "m"+string(rune('a'+i)))
			kinds = append(kinds, int(PF), int(PS))
		}
	}
	return
}

func toB(args []string) [][]byte {
	out := make([][]byte, len(args))
	for i, a := range args {
		out[i] = []byte(a)
	}
	return out
}

// IllFormed enumerates the complete table of ill-formed shapes.
func IllFormed() []Ill {
	var out []Ill
	add := func(name string, args [][]byte, kind string, pos int) {
		out = append(out, Ill{Name: name, Args: args, Kind: kind, Pos: pos})
	}
	for _, s := range Schemas {
		label := s.Name
		if len(s.Pre) > 0 {
			label += " " + s.Pre[0]
		}
		for extra := 0; extra <= 1; extra++ {
			if extra == 1 && s.Tail == TNone {
				continue
			}
			args, kinds := s.minimal(extra)
			// 1. truncation: each required position (and everything after it) omitted
			if extra == 0 {
				for i := 1 + len(s.Pre); i < len(args); i++ {
					add(label, toB(args[:i]), "omitted", i)
				}
			} else {
				// odd pair lists: second pair cut in half
				if s.Tail == TPairs || s.Tail == TScoreMembers {
					add(label, toB(args[:len(args)-1]), "dangling-half", len(args)-1)
				}
			}
			// 2. null bulk at each position
			for i := 1; i < len(args); i++ {
				if kinds[i] == -2 && extra == 1 {
					continue
				}
				if extra == 1 && i < len(args)-tailWidth(s.Tail) {
					continue // only the added tail elements are new
				}
				v := toB(args)
				v[i] = nil
				add(label, v, "null", i)
			}
			// 3. numeric positions
			for i := 1; i < len(args); i++ {
				if extra == 1 && i < len(args)-tailWidth(s.Tail) {
					continue
				}
				var bad []string
				switch kinds[i] {
				case int(PI), int(PPI), int(PIdx):
					bad = badInts
				case int(PF):
					bad = badFloats
				case int(PB):
					bad = badBounds
				}
				for _, t := range bad {
					v := toB(args)
					v[i] = []byte(t)
					add(label, v, "non-numeric:"+t, i)
				}
				if kinds[i] == int(PPI) {
					for _, t := range []string{"0", "-1"} {
						v := toB(args)
						v[i] = []byte(t)
						add(label, v, "non-positive:"+t, i)
					}
				}
			}
		}
	}
	// ZADD with the INCR option: exactly one score/member pair, nothing dangling or null behind it
	add("ZADD", toB([]string{"ZADD", "ik", "INCR", "1", "ma", "2"}), "dangling-half", 5)
	add("ZADD", toB([]string{"ZADD", "ik", "INCR", "1", "ma", "abc", "mb"}), "non-numeric:abc", 5)
	add("ZADD", [][]byte{[]byte("ZADD"), []byte("ik"), []byte("INCR"), []byte("1"), []byte("ma"), nil}, "null", 5)
	add("ZADD", [][]byte{[]byte("ZADD"), []byte("ik"), []byte("INCR"), []byte("1"), []byte("ma"), []byte("2"), nil}, "null", 6)
	add("ZADD", toB([]string{"ZADD", "ik", "INCR", "1"}), "omitted", 4)
	add("ZADD", toB([]string{"ZADD", "ik", "XX", "INCR", "1", "ma", "2"}), "dangling-half", 6)
	// the two-argument form of AUTH
	add("AUTH", [][]byte{[]byte("AUTH"), []byte("default"), nil}, "null", 2)
	add("AUTH", [][]byte{[]byte("AUTH"), nil, []byte("sesame")}, "null", 1)
	add("AUTH", [][]byte{[]byte("AUTH"), nil, nil}, "null", 1)
	// optional numeric arguments
	for _, name := range []string{"LPOP", "RPOP"} {
		for _, t := range badInts {
			add(name, toB([]string{name, "ik", t}), "non-numeric:"+t, 2)
		}
		add(name, [][]byte{[]byte(name), []byte("ik"), nil}, "null", 2)
	}
	for _, t := range badInts {
		add("SCAN", toB([]string{"SCAN", "0", "COUNT", t}), "non-numeric:"+t, 3)
	}
	add("SCAN", toB([]string{"SCAN", "0", "COUNT"}), "omitted", 3)
	add("SCAN", toB([]string{"SCAN", "0", "MATCH"}), "omitted", 3)
	add("SCAN", [][]byte{[]byte("SCAN"), []byte("0"), []byte("MATCH"), nil}, "null", 3)
	for _, cmd := range [][]string{{"ZRANGEBYSCORE", "ik", "1", "2"}, {"ZREVRANGEBYSCORE", "ik", "2", "1"}, {"ZRANGE", "ik", "1", "2", "BYSCORE"}} {
		for _, t := range badInts {
			add(cmd[0], toB(append(append([]string{}, cmd...), "LIMIT", t, "1")), "non-numeric:"+t, len(cmd)+1)
			add(cmd[0], toB(append(append([]string{}, cmd...), "LIMIT", "0", t)), "non-numeric:"+t, len(cmd)+2)
		}
		add(cmd[0], toB(append(append([]string{}, cmd...), "LIMIT", "0")), "omitted", len(cmd)+2)
		add(cmd[0], toB(append(append([]string{}, cmd...), "LIMIT")), "omitted", len(cmd)+1)
	}
	// ZRANGE ... BYSCORE: the two bounds are score bounds there
	for pos := 2; pos <= 3; pos++ {
		for _, t := range badBounds {
			v := []string{"ZRANGE", "ik", "1", "2", "BYSCORE"}
			v[pos] = t
			add("ZRANGE", toB(v), "non-numeric:"+t, pos)
			w := []string{"ZRANGE", "ik", "(1", "(2", "byscore", "WITHSCORES"}
			w[pos] = t
			add("ZRANGE", toB(w), "non-numeric:"+t, pos)
		}
		v := toB([]string{"ZRANGE", "ik", "1", "2", "BYSCORE"})
		v[pos] = nil
		add("ZRANGE", v, "null", pos)
	}
	// SET options
	set := func(kind string, opts ...string) {
		add("SET", toB(append([]string{"SET", "ik", "iv"}, opts...)), kind, 3)
	}
	for _, a := range []string{"NX", "XX"} {
		for _, b := range []string{"NX", "XX", "nx", "xx"} {
			set("exclusive:"+a+"+"+strings.ToUpper(b), a, b)
		}
	}
	exp := []string{"EX", "PX", "EXAT", "PXAT"}
	for _, a := range exp {
		for _, b := range exp {
			set("exclusive:"+a+"+"+b, a, "100", b, "100")
			set("exclusive:"+a+"+"+b, strings.ToLower(a), "100", "NX", strings.ToLower(b), "100")
		}
		set("omitted", a)
		for _, t := range []string{"0", "-1", "-9223372036854775808"} {
			set("non-positive:"+t, a, t)
		}
		for _, t := range badInts {
			set("non-numeric:"+t, a, t)
		}
		add("SET", [][]byte{[]byte("SET"), []byte("ik"), []byte("iv"), []byte(a), nil}, "null", 4)
	}
	return out
}

func tailWidth(t int) int {
	switch t {
	case TStrs:
		return 1
	case TPairs, TScoreMembers:
		return 2
	}
	return 0
}
