// Package cmdspec is an independent grammar of the command surface, written
// from the Redis command reference and the method set of the handler interface
// (redis/handler.go) - not from the executors. For every command it generates
// well-formed argument vectors together with the handler calls they must
// produce, and enumerates ill-formed shapes.
package cmdspec

import (
	"fmt"
	"math"
	"sort"
	"strconv"
	"strings"
	"time"

	"pgregory.net/rapid"

	"verif/internal/canon"
)

// ExpCall is one expected handler call.
type ExpCall struct {
	Method string   `json:"method"`
	Args   []string `json:"args,omitempty"` // canonical rendering; a nil entry list means "only method and key are pinned"
	// KeyOnly: compare only Args[0] (the key).
	KeyOnly bool `json:"key_only,omitempty"`
	// ExpireTTL: for EXPIRE, Args[1] holds the ttl in seconds; the recorded instant must lie in [t0+ttl, t1+ttl].
	ExpireTTL bool `json:"expire_ttl,omitempty"`
}

// Reply classes.
const (
	ReplyPassThrough = "pt" // the client must receive the (single) handler result unchanged
	ReplyFramework   = "fw" // computed by the framework (value is C12's business)
	ReplyExact       = "exact"
)

// GetMode tells how the recording handler answers Get/HGet for composite commands.
const (
	GetNull = "null"
	GetInt  = "int"
	GetStr  = "str"
)

// Inst is a generated well-formed request with its expectation.
type Inst struct {
	Name      string    `json:"name"`  // canonical upper-case command name
	Args      [][]byte  `json:"-"`     // request vector, Args[0] = command name as sent
	Calls     []ExpCall `json:"calls"` // expected handler calls
	Unordered bool      `json:"unordered,omitempty"`
	Reply     string    `json:"reply"`
	Exact     string    `json:"exact,omitempty"`    // for ReplyExact: the canonical RESP bytes expected
	IsError   bool      `json:"is_error,omitempty"` // framework must answer with an error (e.g. INCR on a non-integer)
	GetMode   string    `json:"get_mode,omitempty"`
	GetValue  string    `json:"get_value,omitempty"` // what Get/HGet returns in GetInt/GetStr mode
	Loose     string    `json:"loose,omitempty"`     // "msetnx-exists": >=1 Get on request keys, no Set
	Features  []string  `json:"features,omitempty"`
	ScanMatch *string   `json:"scan_match,omitempty"` // SCAN: the pattern whose matcher the handler must receive
	SelectDB  *int      `json:"select_db,omitempty"`
	Quit      bool      `json:"quit,omitempty"`
}

func (in *Inst) feature(f string) {
	for _, x := range in.Features {
		if x == f {
			return
		}
	}
	in.Features = append(in.Features, f)
}

// Names lists every command of the grammar (canonical upper case).
var Names = []string{
	"AUTH", "PING", "ECHO", "SELECT", "QUIT", "CONFIG",
	"DEL", "EXISTS", "EXPIRE", "EXPIREAT", "KEYS", "TYPE", "TTL", "RENAME", "RENAMENX", "SCAN",
	"GET", "SET", "SETEX", "SETNX", "GETSET", "MSET", "MSETNX", "MGET", "APPEND", "INCR", "DECR", "INCRBY", "DECRBY", "STRLEN", "GETRANGE", "SUBSTR",
	"HSET", "HSETNX", "HGET", "HGETALL", "HDEL", "HMSET", "HMGET", "HEXISTS", "HSTRLEN", "HKEYS", "HVALS", "HLEN",
	"LPUSH", "RPUSH", "LPUSHX", "RPUSHX", "LPOP", "RPOP", "LRANGE", "LINDEX", "LLEN",
	"SADD", "SREM", "SMEMBERS", "SCARD", "SISMEMBER",
	"ZADD", "ZINCRBY", "ZSCORE", "ZREM", "ZRANGE", "ZRANGEBYSCORE", "ZREVRANGE", "ZREVRANGEBYSCORE", "ZCARD",
}

// Has reports whether the grammar knows the command.
func Has(name string) bool {
	for _, n := range Names {
		if n == name {
			return true
		}
	}
	return false
}

// G wraps a rapid.T with the generators of the grammar.
type G struct {
	T *rapid.T
	// Small pools make collisions and duplicate keys frequent.
	Plain bool // only printable short strings (for human-readable pipelines)
	// NoZAddFlags etc.: regions excluded because of open known findings.
	Avoid func(tag string) bool
	in    *Inst
}

func (g *G) avoid(tag string) bool { return g.Avoid != nil && g.Avoid(tag) }

func (g *G) intn(label string, lo, hi int) int { return rapid.IntRange(lo, hi).Draw(g.T, label) }
func (g *G) bool(label string) bool            { return rapid.Bool().Draw(g.T, label) }

var keyPool = []string{"k", "k1", "key:2", "K", "", "a b", "k\r\nx", "\x00k", "ключ", "k\xff"}
var plainKeys = []string{"k", "k1", "k2", "key:2"}

// Key draws a binary-safe key.
func (g *G) Key() string {
	if g.Plain {
		return rapid.SampledFrom(plainKeys).Draw(g.T, "key")
	}
	if g.intn("keycls", 0, 3) > 0 {
		k := rapid.SampledFrom(keyPool).Draw(g.T, "key")
		g.noteStr(k)
		return k
	}
	k := g.Str()
	return k
}

func (g *G) noteStr(s string) {
	if g.in == nil {
		return
	}
	for i := 0; i < len(s); i++ {
		if s[i] < 0x20 || s[i] >= 0x7f {
			g.in.feature("binary")
			return
		}
	}
}

var strPool = []string{"v", "", "hello world", "1", "-1", "0", "\r\n", "a\r\n+OK\r\n", "$-1", "*0", "\x00", "\xff\xfe", "NX", "ex", "limit", "withscores", "3.5", "(1", "abc"}

// Str draws a binary-safe string value (all 256 byte values, empty included).
func (g *G) Str() string {
	if g.Plain {
		return rapid.SampledFrom([]string{"v", "w", "hello", "1", "x y"}).Draw(g.T, "str")
	}
	var s string
	switch g.intn("strcls", 0, 3) {
	case 0, 1:
		s = rapid.SampledFrom(strPool).Draw(g.T, "str")
	default:
		n := g.intn("strlen", 0, 12)
		b := make([]byte, n)
		for i := range b {
			b[i] = rapid.Byte().Draw(g.T, "b")
		}
		s = string(b)
	}
	g.noteStr(s)
	return s
}

// Member draws a non-numeric member/field string (so that it can never be mistaken for a score or option).
func (g *G) Member() string {
	if g.Plain {
		return rapid.SampledFrom([]string{"m1", "m2", "m3"}).Draw(g.T, "member")
	}
	s := rapid.SampledFrom([]string{"m1", "m2", "m3", "member x", "m\r\n", "\x00m", "mémbre", "m\xff", "_"}).Draw(g.T, "member")
	g.noteStr(s)
	return s
}

var intPool = []int{0, 1, -1, 2, -2, 3, 5, 7, 10, 100, -100, 255, 65536, math.MaxInt32, math.MinInt32, math.MaxInt32 + 1, math.MaxInt64, math.MinInt64, math.MaxInt64 - 1, math.MinInt64 + 1}

// Int draws an integer of the handler's int type, with boundary bias.
func (g *G) Int() int {
	if g.Plain {
		return g.intn("int", -3, 10)
	}
	if g.intn("intcls", 0, 2) == 0 {
		return rapid.SampledFrom(intPool).Draw(g.T, "intb")
	}
	if g.intn("intcls2", 0, 1) == 0 {
		return g.intn("intsmall", -20, 20)
	}
	return rapid.Int().Draw(g.T, "int")
}

// Count-like integer bounded to what a handler can be asked to iterate over in-process.
func (g *G) SmallInt() int { return g.intn("smallint", -1000000, 1000000) }

func itoa(n int) string { return strconv.Itoa(n) }

var floatPool = []float64{0, 1, -1, 0.5, -2.5, 1e3, 1e21, 1e-7, 3.0000000000000004, math.MaxFloat64, -math.MaxFloat64, math.SmallestNonzeroFloat64, math.Inf(1), math.Inf(-1), 9007199254740993}

// Float draws a score and the token that denotes it.
func (g *G) Float() (float64, string) {
	var f float64
	if g.Plain {
		f = float64(g.intn("fint", -5, 20)) / 2
		return f, strconv.FormatFloat(f, 'g', -1, 64)
	}
	switch g.intn("fcls", 0, 3) {
	case 0:
		f = rapid.SampledFrom(floatPool).Draw(g.T, "fb")
	case 1:
		f = float64(g.intn("fint", -50, 50))
	default:
		f = rapid.Float64().Draw(g.T, "f")
		if math.IsNaN(f) {
			f = 0
		}
	}
	tok := strconv.FormatFloat(f, 'g', -1, 64)
	switch {
	case math.IsInf(f, 1):
		tok = rapid.SampledFrom([]string{"inf", "+inf", "Inf", "+Inf", "INF"}).Draw(g.T, "inftok")
	case math.IsInf(f, -1):
		tok = rapid.SampledFrom([]string{"-inf", "-Inf", "-INF"}).Draw(g.T, "inftok")
	case f == math.Trunc(f) && math.Abs(f) < 1e15 && g.bool("intform"):
		tok = strconv.FormatFloat(f, 'f', 0, 64)
	case g.intn("fmt", 0, 4) == 0:
		tok = strconv.FormatFloat(f, 'e', -1, 64)
	}
	return f, tok
}

// Bound draws a score bound: value, exclusive marker, token.
func (g *G) Bound() (float64, bool, string) {
	f, tok := g.Float()
	ex := g.intn("excl", 0, 2) == 0
	if ex {
		tok = "(" + tok
		g.in.feature("option")
	}
	return f, ex, tok
}

// Casing returns s in a random letter case.
func (g *G) Casing(s string) string {
	if g.Plain {
		return s
	}
	switch g.intn("case", 0, 3) {
	case 0:
		return s
	case 1:
		if g.in != nil {
			g.in.feature("mixedcase")
		}
		return strings.ToLower(s)
	default:
		b := []byte(s)
		for i := range b {
			if g.bool("lower") {
				b[i] = strings.ToLower(string(b[i]))[0]
			}
		}
		if string(b) != s && g.in != nil {
			g.in.feature("mixedcase")
		}
		return string(b)
	}
}

func b(ss ...string) [][]byte {
	out := make([][]byte, len(ss))
	for i, s := range ss {
		out[i] = []byte(s)
	}
	return out
}

// Gen draws a well-formed instance of the named command.
func (g *G) Gen(name string) *Inst {
	in := &Inst{Name: name, Reply: ReplyPassThrough}
	g.in = in
	defer func() { g.in = nil }()
	cmd := g.Casing(name)
	req := func(args ...string) { in.Args = append(b(cmd), b(args...)...) }
	call := func(method string, args ...string) { in.Calls = append(in.Calls, ExpCall{Method: method, Args: args}) }
	noOpt := canon.SetOpt(0, 0, time.Time{}, time.Time{}, false, false, false, false)

	switch name {
	case "AUTH":
		if g.bool("two") {
			u, p := g.Str(), g.Str()
			if p == "" {
				p = "p"
			}
			req(u, p)
			call("Auth", u, p)
			in.feature("multi")
		} else {
			p := g.Str()
			if p == "" {
				p = "p"
			}
			req(p)
			call("Auth", "", p)
		}
	case "PING":
		in.Reply = ReplyExact
		if g.bool("msg") {
			m := g.Str()
			if m == "" {
				m = "x" // PING "" is a recorded ambiguity of the handler interface, not generated
			}
			req(m)
			in.Exact = bulk(m)
		} else {
			req()
			in.Exact = "+PONG\r\n"
		}
	case "ECHO":
		m := g.Str()
		req(m)
		in.Reply, in.Exact = ReplyExact, bulk(m)
	case "SELECT":
		n := g.intn("db", 0, 15)
		req(itoa(n))
		in.Reply, in.Exact = ReplyExact, "+OK\r\n"
		in.SelectDB = &n
	case "QUIT":
		req()
		in.Reply, in.Exact = ReplyExact, "+OK\r\n"
		in.Quit = true
	case "CONFIG":
		// parameter names outside the server's own parameters, so that the running server is not reconfigured
		names := []string{"verif-a", "verif-b", "maxmemory-policy", "x y", "verif\x00c", "Verif-Mixed"}
		if g.bool("set") {
			n := g.intn("npairs", 1, 3)
			args := []string{g.Casing("SET")}
			for i := 0; i < n; i++ {
				args = append(args, rapid.SampledFrom(names).Draw(g.T, "cfgname"), g.Str())
			}
			req(args...)
			in.Reply, in.Exact = ReplyExact, "+OK\r\n"
			if n > 1 {
				in.feature("multi")
			}
		} else {
			n := g.intn("nnames", 1, 3)
			args := []string{g.Casing("GET")}
			for i := 0; i < n; i++ {
				args = append(args, rapid.SampledFrom(names).Draw(g.T, "cfgname"))
			}
			req(args...)
			in.Reply = ReplyFramework
		}
		in.feature("option")
	case "DEL", "EXISTS":
		keys := g.keys(1, 5)
		req(keys...)
		call(map[string]string{"DEL": "Del", "EXISTS": "Exists"}[name], canon.Strs(keys))
	case "EXPIRE", "EXPIREAT":
		k := g.Key()
		var ttl int
		if g.intn("ttlcls", 0, 2) == 0 {
			ttl = rapid.SampledFrom([]int{0, 1, -1, 60, 86400, 9000000000, -9000000000, 2147483647, 2147483648}).Draw(g.T, "ttlb")
		} else {
			ttl = g.intn("ttl", -100000, 100000000)
		}
		args := []string{k, itoa(ttl)}
		flags := map[string]bool{}
		if g.bool("flag") {
			f := rapid.SampledFrom([]string{"NX", "XX", "GT", "LT"}).Draw(g.T, "expflag")
			flags[f] = true
			args = append(args, g.Casing(f))
			in.feature("option")
		}
		req(args...)
		fl := canon.ExpireFlags(flags["NX"], flags["XX"], flags["GT"], flags["LT"])
		if name == "EXPIRE" {
			in.Calls = append(in.Calls, ExpCall{Method: "Expire", Args: []string{k, itoa(ttl), fl}, ExpireTTL: true})
		} else {
			call("Expire", k, strconv.FormatInt(time.Unix(int64(ttl), 0).UnixNano(), 10), fl)
		}
	case "KEYS":
		p := g.Str()
		req(p)
		call("Keys", p)
	case "TYPE":
		k := g.Key()
		req(k)
		call("Type", k)
	case "TTL":
		k := g.Key()
		req(k)
		call("TTL", k)
	case "RENAME", "RENAMENX":
		k, nk := g.Key(), g.Key()
		req(k, nk)
		call("Rename", k, nk, canon.Bool("NX", name == "RENAMENX"))
		if k == nk {
			in.feature("dupkey")
		}
	case "SCAN":
		cursor := g.intn("cursor", 0, 1000)
		args := []string{itoa(cursor)}
		count := 10
		var pat *string
		opts := []string{}
		if g.bool("match") {
			opts = append(opts, "MATCH")
		}
		if g.bool("count") {
			opts = append(opts, "COUNT")
		}
		if len(opts) == 2 && g.bool("swap") {
			opts[0], opts[1] = opts[1], opts[0]
		}
		for _, o := range opts {
			in.feature("option")
			if o == "MATCH" {
				p := g.GlobPattern()
				pat = &p
				args = append(args, g.Casing("MATCH"), p)
			} else {
				count = g.intn("scancount", 1, 1000)
				args = append(args, g.Casing("COUNT"), itoa(count))
			}
		}
		req(args...)
		call("Scan", itoa(cursor), "COUNT="+itoa(count), "TYPE=0")
		if pat == nil {
			star := "*"
			pat = &star
		}
		in.ScanMatch = pat
	case "GET":
		k := g.Key()
		req(k)
		call("Get", k)
	case "SET":
		k, v := g.Key(), g.Str()
		args := []string{k, v}
		var ex, px time.Duration
		var exat, pxat time.Time
		nx, xx, keepttl, get := false, false, false, false
		var toks [][]string
		switch g.intn("cond", 0, 2) {
		case 1:
			nx = true
			toks = append(toks, []string{g.Casing("NX")})
		case 2:
			xx = true
			toks = append(toks, []string{g.Casing("XX")})
		}
		if g.bool("get") {
			get = true
			toks = append(toks, []string{g.Casing("GET")})
		}
		switch g.intn("exp", 0, 5) {
		case 5:
			keepttl = true
			toks = append(toks, []string{g.Casing("KEEPTTL")})
		case 1:
			n := g.posInt(9000000000)
			ex = time.Duration(n) * time.Second
			toks = append(toks, []string{g.Casing("EX"), itoa(n)})
		case 2:
			n := g.posInt(9000000000000)
			px = time.Duration(n) * time.Millisecond
			toks = append(toks, []string{g.Casing("PX"), itoa(n)})
		case 3:
			n := g.posInt(253402300799)
			exat = time.Unix(int64(n), 0)
			toks = append(toks, []string{g.Casing("EXAT"), itoa(n)})
		case 4:
			n := g.posInt(253402300799000)
			pxat = time.UnixMilli(int64(n))
			toks = append(toks, []string{g.Casing("PXAT"), itoa(n)})
		}
		perm := rapid.Permutation(toks).Draw(g.T, "optorder")
		for _, t := range perm {
			args = append(args, t...)
		}
		if len(toks) > 0 {
			in.feature("option")
		}
		req(args...)
		call("Set", k, v, canon.SetOpt(ex, px, exat, pxat, nx, xx, keepttl, get))
	case "SETEX":
		k, v := g.Key(), g.Str()
		n := g.posInt(9000000000)
		req(k, itoa(n), v)
		call("Set", k, v, canon.SetOpt(time.Duration(n)*time.Second, 0, time.Time{}, time.Time{}, false, false, false, false))
	case "SETNX":
		k, v := g.Key(), g.Str()
		req(k, v)
		call("Set", k, v, canon.SetOpt(0, 0, time.Time{}, time.Time{}, true, false, false, false))
	case "GETSET":
		k, v := g.Key(), g.Str()
		req(k, v)
		call("Set", k, v, canon.SetOpt(0, 0, time.Time{}, time.Time{}, false, false, false, true))
	case "MSET", "MSETNX":
		keys, vals := g.pairs(1, 4)
		args := []string{}
		for i := range keys {
			args = append(args, keys[i], vals[i])
		}
		req(args...)
		last := map[string]string{}
		var order []string
		for i, k := range keys {
			if _, ok := last[k]; !ok {
				order = append(order, k)
			} else {
				in.feature("dupkey")
			}
			last[k] = vals[i]
		}
		in.Unordered = true
		in.Reply = ReplyExact
		if name == "MSET" {
			for _, k := range order {
				call("Set", k, last[k], noOpt)
			}
			in.Exact = "+OK\r\n"
		} else {
			in.GetMode = rapid.SampledFrom([]string{GetNull, GetNull, GetStr}).Draw(g.T, "getmode")
			if in.GetMode == GetNull {
				for _, k := range order {
					call("Get", k)
				}
				for _, k := range order {
					call("Set", k, last[k], canon.SetOpt(0, 0, time.Time{}, time.Time{}, true, false, false, false))
				}
				in.Exact = ":1\r\n"
			} else {
				in.GetValue = "existing"
				// the first key examined exists: no Set at all; which key is examined first is unspecified
				in.Calls = nil
				for _, k := range order {
					call("Get", k)
				}
				in.Loose = "msetnx-exists"
				in.Exact = ":0\r\n"
			}
		}
		if len(keys) > 1 {
			in.feature("multi")
		}
	case "MGET":
		keys := g.keys(1, 5)
		req(keys...)
		for _, k := range keys {
			call("Get", k)
		}
		in.Reply = ReplyFramework
	case "APPEND":
		k, v := g.Key(), g.Str()
		req(k, v)
		in.GetMode = rapid.SampledFrom([]string{GetNull, GetStr}).Draw(g.T, "getmode")
		old := ""
		if in.GetMode == GetStr {
			old = g.Str()
			in.GetValue = old
		}
		call("Get", k)
		call("Set", k, old+v, noOpt)
		in.Reply, in.Exact = ReplyExact, ":"+itoa(len(old+v))+"\r\n"
	case "INCR", "DECR", "INCRBY", "DECRBY":
		k := g.Key()
		delta := 1
		args := []string{k}
		if name == "INCRBY" || name == "DECRBY" {
			delta = g.intn("delta", -1000000, 1000000)
			args = append(args, itoa(delta))
		}
		if name == "DECR" || name == "DECRBY" {
			delta = -delta
		}
		req(args...)
		in.GetMode = rapid.SampledFrom([]string{GetNull, GetInt, GetInt, GetStr}).Draw(g.T, "getmode")
		call("Get", k)
		in.Reply = ReplyExact
		switch in.GetMode {
		case GetNull:
			call("Set", k, itoa(delta), noOpt)
			in.Exact = ":" + itoa(delta) + "\r\n"
		case GetInt:
			old := g.intn("old", -1000000000, 1000000000)
			in.GetValue = itoa(old)
			call("Set", k, itoa(old+delta), noOpt)
			in.Exact = ":" + itoa(old+delta) + "\r\n"
		default:
			in.GetValue = rapid.SampledFrom([]string{"abc", "1.5", "", " 1", "1 "}).Draw(g.T, "nonint")
			in.Reply, in.IsError = ReplyFramework, true
		}
	case "STRLEN":
		k := g.Key()
		req(k)
		call("Get", k)
		in.Reply = ReplyFramework
	case "GETRANGE", "SUBSTR":
		k := g.Key()
		req(k, itoa(g.intn("start", -20, 20)), itoa(g.intn("end", -20, 20)))
		call("Get", k)
		in.Reply = ReplyFramework
	case "HSET", "HSETNX":
		k, f, v := g.Key(), g.Member(), g.Str()
		req(k, f, v)
		call("HSet", k, f, v, canon.Bool("NX", name == "HSETNX"))
	case "HGET":
		k, f := g.Key(), g.Member()
		req(k, f)
		call("HGet", k, f)
	case "HGETALL":
		k := g.Key()
		req(k)
		call("HGetAll", k)
	case "HDEL":
		k := g.Key()
		fs := g.members(1, 4)
		req(append([]string{k}, fs...)...)
		call("HDel", k, canon.Strs(fs))
	case "HMSET":
		k := g.Key()
		n := g.intn("npairs", 1, 4)
		args := []string{k}
		last := map[string]string{}
		var order []string
		for i := 0; i < n; i++ {
			f, v := g.Member(), g.Str()
			args = append(args, f, v)
			if _, ok := last[f]; !ok {
				order = append(order, f)
			} else {
				in.feature("dupkey")
			}
			last[f] = v
		}
		req(args...)
		for _, f := range order {
			call("HSet", k, f, last[f], canon.Bool("NX", false))
		}
		in.Unordered = true
		in.Reply, in.Exact = ReplyExact, "+OK\r\n"
		if n > 1 {
			in.feature("multi")
		}
	case "HMGET":
		k := g.Key()
		fs := g.members(1, 4)
		req(append([]string{k}, fs...)...)
		for _, f := range fs {
			call("HGet", k, f)
		}
		in.Reply = ReplyFramework
	case "HEXISTS", "HSTRLEN":
		k, f := g.Key(), g.Member()
		req(k, f)
		call("HGet", k, f)
		in.Reply = ReplyFramework
	case "HKEYS", "HVALS", "HLEN":
		k := g.Key()
		req(k)
		call("HGetAll", k)
		in.Reply = ReplyFramework
	case "LPUSH", "RPUSH", "LPUSHX", "RPUSHX":
		k := g.Key()
		es := g.strs(1, 5)
		req(append([]string{k}, es...)...)
		call(map[byte]string{'L': "LPush", 'R': "RPush"}[name[0]], k, canon.Strs(es), canon.Bool("X", strings.HasSuffix(name, "X")))
	case "LPOP", "RPOP":
		k := g.Key()
		cnt := 1
		if g.bool("count") {
			cnt = g.intn("popcount", 1, 1000)
			req(k, itoa(cnt))
			in.feature("option")
		} else {
			req(k)
		}
		call(map[byte]string{'L': "LPop", 'R': "RPop"}[name[0]], k, itoa(cnt))
	case "LRANGE":
		k := g.Key()
		s, e := g.SmallIdx(), g.SmallIdx()
		req(k, itoa(s), itoa(e))
		call("LRange", k, itoa(s), itoa(e))
	case "LINDEX":
		k := g.Key()
		i := g.Int()
		req(k, itoa(i))
		call("LIndex", k, itoa(i))
	case "LLEN":
		k := g.Key()
		req(k)
		call("LLen", k)
	case "SADD", "SREM":
		k := g.Key()
		ms := g.strs(1, 5)
		req(append([]string{k}, ms...)...)
		call(map[string]string{"SADD": "SAdd", "SREM": "SRem"}[name], k, canon.Strs(ms))
	case "SMEMBERS":
		k := g.Key()
		req(k)
		call("SMembers", k)
	case "SCARD":
		k := g.Key()
		req(k)
		call("SMembers", k)
		in.Reply = ReplyFramework
	case "SISMEMBER":
		k, m := g.Key(), g.Str()
		req(k, m)
		call("SMembers", k)
		in.Reply = ReplyFramework
	case "ZADD":
		k := g.Key()
		args := []string{k}
		flags := map[string]bool{}
		if !g.avoid("zadd-flags") {
			var toks []string
			switch g.intn("cond", 0, 3) {
			case 1:
				toks = append(toks, "NX")
			case 2:
				toks = append(toks, "XX")
			}
			if len(toks) == 0 || toks[0] != "NX" { // NX and GT/LT are mutually exclusive in Redis
				switch g.intn("cmp", 0, 3) {
				case 1:
					toks = append(toks, "GT")
				case 2:
					toks = append(toks, "LT")
				}
			}
			if g.intn("ch", 0, 2) == 0 {
				toks = append(toks, "CH")
			}
			incr := g.intn("incr", 0, 4) == 0
			if incr {
				toks = append(toks, "INCR")
			}
			for _, t := range rapid.Permutation(toks).Draw(g.T, "flagorder") {
				flags[t] = true
				args = append(args, g.Casing(t))
				in.feature("option")
			}
		}
		n := g.intn("nmembers", 1, 4)
		if flags["INCR"] {
			n = 1
		}
		var ms []canon.ZMember
		for i := 0; i < n; i++ {
			f, tok := g.Float()
			m := g.Member()
			ms = append(ms, canon.ZMember{Score: f, Member: m})
			args = append(args, tok, m)
		}
		req(args...)
		call("ZAdd", k, canon.ZMembers(ms), canon.ZAddOpt(flags["XX"], flags["NX"], flags["LT"], flags["GT"], flags["CH"], flags["INCR"]))
		if n > 1 {
			in.feature("multi")
		}
	case "ZINCRBY":
		k := g.Key()
		f, tok := g.Float()
		m := g.Member()
		req(k, tok, m)
		call("ZIncBy", k, canon.Float(f), m)
	case "ZSCORE":
		k, m := g.Key(), g.Member()
		req(k, m)
		call("ZScore", k, m)
	case "ZREM":
		k := g.Key()
		ms := g.members(1, 4)
		req(append([]string{k}, ms...)...)
		call("ZRem", k, canon.Strs(ms))
	case "ZRANGE":
		k := g.Key()
		byScore := g.bool("byscore")
		if byScore {
			min, minEx, minTok := g.Bound()
			max, maxEx, maxTok := g.Bound()
			args := []string{k, minTok, maxTok}
			// REV with BYSCORE swaps the meaning of the two bounds in Redis; which of them the handler
			// must then receive as min is not defined by the interface, so that combination is not generated.
			rev, ws, off, cnt, toks := g.rangeOpts(false, true)
			toks = append(toks, []string{g.Casing("BYSCORE")})
			for _, t := range rapid.Permutation(toks).Draw(g.T, "optorder") {
				args = append(args, t...)
			}
			in.feature("option")
			req(args...)
			call("ZRangeByScore", k, canon.Float(min), canon.Float(max), canon.ZRangeByScoreOpt(rev, ws, minEx, maxEx, off, cnt))
		} else {
			s, e := g.SmallIdx(), g.SmallIdx()
			args := []string{k, itoa(s), itoa(e)}
			rev, ws, off, cnt, toks := g.rangeOpts(true, false) // LIMIT needs BYSCORE/BYLEX in Redis
			for _, t := range rapid.Permutation(toks).Draw(g.T, "optorder") {
				args = append(args, t...)
			}
			if len(toks) > 0 {
				in.feature("option")
			}
			req(args...)
			call("ZRange", k, itoa(s), itoa(e), canon.ZRangeOpt(rev, ws, off, cnt))
		}
	case "ZRANGEBYSCORE":
		k := g.Key()
		min, minEx, minTok := g.Bound()
		max, maxEx, maxTok := g.Bound()
		args := []string{k, minTok, maxTok}
		_, ws, off, cnt, toks := g.rangeOpts(false, true)
		for _, t := range rapid.Permutation(toks).Draw(g.T, "optorder") {
			args = append(args, t...)
		}
		if len(toks) > 0 {
			in.feature("option")
		}
		req(args...)
		call("ZRangeByScore", k, canon.Float(min), canon.Float(max), canon.ZRangeByScoreOpt(false, ws, minEx, maxEx, off, cnt))
	case "ZREVRANGE":
		k := g.Key()
		s, e := g.SmallIdx(), g.SmallIdx()
		args := []string{k, itoa(s), itoa(e)}
		if g.bool("withscores") {
			args = append(args, g.Casing("WITHSCORES"))
			in.feature("option")
		}
		req(args...)
		in.Calls = []ExpCall{{Method: "ZRange", Args: []string{k}, KeyOnly: true}}
		in.Reply = ReplyFramework
	case "ZREVRANGEBYSCORE":
		k := g.Key()
		_, _, maxTok := g.Bound()
		_, _, minTok := g.Bound()
		args := []string{k, maxTok, minTok}
		_, _, _, _, toks := g.rangeOpts(false, true)
		for _, t := range rapid.Permutation(toks).Draw(g.T, "optorder") {
			args = append(args, t...)
		}
		if len(toks) > 0 {
			in.feature("option")
		}
		req(args...)
		in.Calls = []ExpCall{{Method: "ZRangeByScore", Args: []string{k}, KeyOnly: true}}
		in.Reply = ReplyFramework
	case "ZCARD":
		k := g.Key()
		req(k)
		in.Calls = []ExpCall{{Method: "ZRange", Args: []string{k}, KeyOnly: true}}
		in.Reply = ReplyFramework
	default:
		panic("cmdspec: no grammar for " + name)
	}
	if len(in.Args) > 3 {
		multi := false
		switch name {
		case "DEL", "EXISTS", "MGET", "HDEL", "HMGET", "LPUSH", "RPUSH", "LPUSHX", "RPUSHX", "SADD", "SREM", "ZREM":
			multi = true
		}
		if multi {
			in.feature("multi")
		}
	}
	return in
}

func bulk(s string) string { return "$" + itoa(len(s)) + "\r\n" + s + "\r\n" }

func (g *G) posInt(max int) int {
	if g.intn("poscls", 0, 3) == 0 {
		return rapid.SampledFrom([]int{1, 2, 60, max}).Draw(g.T, "posb")
	}
	if max > 100000000 {
		max = 100000000
	}
	return g.intn("pos", 1, max)
}

// SmallIdx: list/zset index argument with boundary bias, bounded to +-10^6.
func (g *G) SmallIdx() int {
	if g.intn("idxcls", 0, 2) == 0 {
		return rapid.SampledFrom([]int{0, 1, -1, 2, -2, 10, -10, 1000000, -1000000}).Draw(g.T, "idxb")
	}
	return g.intn("idx", -12, 12)
}

func (g *G) keys(min, max int) []string {
	n := g.intn("nkeys", min, max)
	ks := make([]string, n)
	seen := map[string]bool{}
	for i := range ks {
		ks[i] = g.Key()
		if seen[ks[i]] {
			g.in.feature("dupkey")
		}
		seen[ks[i]] = true
	}
	return ks
}

func (g *G) strs(min, max int) []string {
	n := g.intn("nstrs", min, max)
	ss := make([]string, n)
	seen := map[string]bool{}
	for i := range ss {
		ss[i] = g.Str()
		if seen[ss[i]] {
			g.in.feature("dupkey")
		}
		seen[ss[i]] = true
	}
	return ss
}

func (g *G) members(min, max int) []string {
	n := g.intn("nmembers", min, max)
	ss := make([]string, n)
	for i := range ss {
		ss[i] = g.Member()
	}
	return ss
}

func (g *G) pairs(min, max int) ([]string, []string) {
	n := g.intn("npairs", min, max)
	ks, vs := make([]string, n), make([]string, n)
	for i := range ks {
		ks[i], vs[i] = g.Key(), g.Str()
	}
	return ks, vs
}

// rangeOpts draws REV / WITHSCORES / LIMIT tokens.
func (g *G) rangeOpts(allowRev, allowLimit bool) (rev, ws bool, off, cnt int, toks [][]string) {
	cnt = -1
	if allowRev && g.intn("rev", 0, 2) == 0 {
		rev = true
		toks = append(toks, []string{g.Casing("REV")})
	}
	if g.bool("ws") {
		ws = true
		toks = append(toks, []string{g.Casing("WITHSCORES")})
	}
	if allowLimit && g.intn("limit", 0, 2) == 0 {
		off = g.intn("off", 0, 10)
		cnt = g.intn("cnt", -1, 10)
		if !g.Plain && g.intn("limitcls", 0, 3) == 0 {
			off = rapid.SampledFrom([]int{0, 1, 2, 1000000, math.MaxInt32, math.MaxInt64 - 1, math.MaxInt64}).Draw(g.T, "offb")
			cnt = rapid.SampledFrom([]int{0, 1, -1, -2, math.MaxInt32, math.MaxInt64 - 1, math.MaxInt64, math.MinInt64}).Draw(g.T, "cntb")
		}
		toks = append(toks, []string{g.Casing("LIMIT"), itoa(off), itoa(cnt)})
	}
	return
}

// GlobPattern draws a glob pattern over literals, * and ? (no [ ] \\).
func (g *G) GlobPattern() string {
	n := g.intn("patlen", 0, 6)
	var sb strings.Builder
	for i := 0; i < n; i++ {
		sb.WriteString(rapid.SampledFrom([]string{"*", "?", "a", "b", "k", ":", ".", "+", "(", "|", "$", "^", "{", "1"}).Draw(g.T, "patc"))
	}
	return sb.String()
}

// GlobMatch is the reference matcher: '*' any sequence, '?' one character (byte), everything else literal.
func GlobMatch(p, s string) bool {
	for len(p) > 0 {
		switch p[0] {
		case '*':
			for len(p) > 0 && p[0] == '*' {
				p = p[1:]
			}
			if len(p) == 0 {
				return true
			}
			for i := 0; i <= len(s); i++ {
				if GlobMatch(p, s[i:]) {
					return true
				}
			}
			return false
		case '?':
			if len(s) == 0 {
				return false
			}
			p, s = p[1:], s[1:]
		default:
			if len(s) == 0 || s[0] != p[0] {
				return false
			}
			p, s = p[1:], s[1:]
		}
	}
	return len(s) == 0
}

// SortedNames returns the grammar's command names sorted.
func SortedNames() []string {
	out := append([]string{}, Names...)
	sort.Strings(out)
	return out
}

var _ = fmt.Sprint
