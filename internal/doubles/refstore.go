package doubles

import (
	"errors"
	"sync"

	"github.com/cybergarage/go-redis/redis"

	"verif/internal/model"
	"verif/internal/resp"
)

// RefStore is a UserCommandHandler whose primitive operations are the Redis
// model's, each executed atomically under one mutex: "primitive operations that
// behave like Redis".
type RefStore struct {
	mu sync.Mutex
	M  *model.Model
	// Gate, if set, is called before and after every primitive (outside the mutex): turnstile for controlled schedules.
	Gate func(phase string, method string, conn *redis.Conn)
	// SplitRMW makes the read-modify-write primitive Set (with NX, XX or GET) read the old value and write the new
	// one in two separately locked steps with a Gate("mid") between them - a handler that is not synchronized
	// itself and relies on the framework executing commands one at a time (as the bundled example store does).
	SplitRMW bool
}

func NewRefStore() *RefStore { return &RefStore{M: model.New()} }

func (s *RefStore) do(conn *redis.Conn, method string, f func(db model.DB) resp.Value) (*redis.Message, error) {
	if s.Gate != nil {
		s.Gate("before", method, conn)
	}
	s.mu.Lock()
	v := f(s.M.DB(conn.Database()))
	s.mu.Unlock()
	if s.Gate != nil {
		s.Gate("after", method, conn)
	}
	if v.IsError() {
		return nil, errors.New(string(v.Data))
	}
	return ToMessage(v), nil
}

// Snapshot returns a deep copy of the store's state.
func (s *RefStore) Snapshot() *model.Model {
	s.mu.Lock()
	defer s.mu.Unlock()
	return s.M.Clone()
}

func (s *RefStore) Del(c *redis.Conn, keys []string) (*redis.Message, error) {
	return s.do(c, "Del", func(db model.DB) resp.Value { return db.Del(keys) })
}
func (s *RefStore) Exists(c *redis.Conn, keys []string) (*redis.Message, error) {
	return s.do(c, "Exists", func(db model.DB) resp.Value { return db.Exists(keys) })
}
func (s *RefStore) Expire(c *redis.Conn, key string, opt redis.ExpireOption) (*redis.Message, error) {
	return s.do(c, "Expire", func(db model.DB) resp.Value { return db.Exists([]string{key}) })
}
func (s *RefStore) Keys(c *redis.Conn, pattern string) (*redis.Message, error) {
	return s.do(c, "Keys", func(db model.DB) resp.Value { return db.Keys(pattern) })
}
func (s *RefStore) Rename(c *redis.Conn, key string, newkey string, opt redis.RenameOption) (*redis.Message, error) {
	return s.do(c, "Rename", func(db model.DB) resp.Value { return db.Rename(key, newkey, opt.NX) })
}
func (s *RefStore) Type(c *redis.Conn, key string) (*redis.Message, error) {
	return s.do(c, "Type", func(db model.DB) resp.Value { return db.Type(key) })
}
func (s *RefStore) TTL(c *redis.Conn, key string) (*redis.Message, error) {
	return s.do(c, "TTL", func(db model.DB) resp.Value {
		if db.Exists([]string{key}).Equal(model.Int(1)) {
			return model.Int(-1)
		}
		return model.Int(-2)
	})
}
func (s *RefStore) Scan(c *redis.Conn, cursor int, opt redis.ScanOption) (*redis.Message, error) {
	return s.do(c, "Scan", func(db model.DB) resp.Value {
		all := db.Keys("*")
		out := resp.A()
		for _, k := range all.Elems {
			if opt.MatchPattern == nil || opt.MatchPattern.MatchString(string(k.Data)) {
				out.Elems = append(out.Elems, k)
			}
		}
		return resp.A(resp.B("0"), out)
	})
}
func (s *RefStore) Set(c *redis.Conn, key string, val string, opt redis.SetOption) (*redis.Message, error) {
	if s.SplitRMW && (opt.NX || opt.XX || opt.GET) {
		if s.Gate != nil {
			s.Gate("before", "Set", c)
		}
		s.mu.Lock()
		old := s.M.DB(c.Database()).Get(key)
		s.mu.Unlock()
		if s.Gate != nil {
			s.Gate("mid", "Set", c)
		}
		exists := !old.Null && !old.IsError()
		var v resp.Value
		switch {
		case opt.NX && exists:
			v = model.Int(0)
			if opt.GET {
				v = old
			}
		case opt.XX && !exists:
			v = model.Null
		default:
			s.mu.Lock()
			s.M.DB(c.Database()).Set(key, val, model.SetOpts{})
			s.mu.Unlock()
			switch {
			case opt.GET:
				v = old
			case opt.NX:
				v = model.Int(1)
			default:
				v = model.OK
			}
		}
		if s.Gate != nil {
			s.Gate("after", "Set", c)
		}
		if v.IsError() {
			return nil, errors.New(string(v.Data))
		}
		return ToMessage(v), nil
	}
	return s.do(c, "Set", func(db model.DB) resp.Value {
		return db.Set(key, val, model.SetOpts{NX: opt.NX, XX: opt.XX, GET: opt.GET})
	})
}
func (s *RefStore) Get(c *redis.Conn, key string) (*redis.Message, error) {
	return s.do(c, "Get", func(db model.DB) resp.Value { return db.Get(key) })
}
func (s *RefStore) HDel(c *redis.Conn, key string, fields []string) (*redis.Message, error) {
	return s.do(c, "HDel", func(db model.DB) resp.Value { return db.HDel(key, fields) })
}
func (s *RefStore) HSet(c *redis.Conn, key string, field string, val string, opt redis.HSetOption) (*redis.Message, error) {
	return s.do(c, "HSet", func(db model.DB) resp.Value { return db.HSet(key, field, val, opt.NX) })
}
func (s *RefStore) HGet(c *redis.Conn, key string, field string) (*redis.Message, error) {
	return s.do(c, "HGet", func(db model.DB) resp.Value { return db.HGet(key, field) })
}
func (s *RefStore) HGetAll(c *redis.Conn, key string) (*redis.Message, error) {
	return s.do(c, "HGetAll", func(db model.DB) resp.Value { return db.HGetAll(key) })
}
func (s *RefStore) LPush(c *redis.Conn, key string, elements []string, opt redis.PushOption) (*redis.Message, error) {
	return s.do(c, "LPush", func(db model.DB) resp.Value { return db.Push(key, elements, true, opt.X) })
}
func (s *RefStore) RPush(c *redis.Conn, key string, elements []string, opt redis.PushOption) (*redis.Message, error) {
	return s.do(c, "RPush", func(db model.DB) resp.Value { return db.Push(key, elements, false, opt.X) })
}
func (s *RefStore) LPop(c *redis.Conn, key string, count int) (*redis.Message, error) {
	return s.do(c, "LPop", func(db model.DB) resp.Value { return db.Pop(key, count, true) })
}
func (s *RefStore) RPop(c *redis.Conn, key string, count int) (*redis.Message, error) {
	return s.do(c, "RPop", func(db model.DB) resp.Value { return db.Pop(key, count, false) })
}
func (s *RefStore) LRange(c *redis.Conn, key string, start int, stop int) (*redis.Message, error) {
	return s.do(c, "LRange", func(db model.DB) resp.Value { return db.LRange(key, start, stop) })
}
func (s *RefStore) LIndex(c *redis.Conn, key string, index int) (*redis.Message, error) {
	return s.do(c, "LIndex", func(db model.DB) resp.Value { return db.LIndex(key, index) })
}
func (s *RefStore) LLen(c *redis.Conn, key string) (*redis.Message, error) {
	return s.do(c, "LLen", func(db model.DB) resp.Value { return db.LLen(key) })
}
func (s *RefStore) SAdd(c *redis.Conn, key string, members []string) (*redis.Message, error) {
	return s.do(c, "SAdd", func(db model.DB) resp.Value { return db.SAdd(key, members) })
}
func (s *RefStore) SMembers(c *redis.Conn, key string) (*redis.Message, error) {
	return s.do(c, "SMembers", func(db model.DB) resp.Value { return db.SMembers(key) })
}
func (s *RefStore) SRem(c *redis.Conn, key string, members []string) (*redis.Message, error) {
	return s.do(c, "SRem", func(db model.DB) resp.Value { return db.SRem(key, members) })
}
func (s *RefStore) ZAdd(c *redis.Conn, key string, members []*redis.ZSetMember, opt redis.ZAddOption) (*redis.Message, error) {
	return s.do(c, "ZAdd", func(db model.DB) resp.Value {
		ms := make([]model.ZM, 0, len(members))
		for _, m := range members {
			ms = append(ms, model.ZM{Score: m.Score, Member: m.Member})
		}
		return db.ZAdd(key, ms)
	})
}
func zopts(opt redis.ZRangeOption) model.ZOpts {
	return model.ZOpts{Rev: opt.REV, WithScores: opt.WITHSCORES, MinEx: opt.MINEXCLUSIVE, MaxEx: opt.MAXEXCLUSIVE,
		Offset: opt.Offset, Count: opt.Count, HasLimit: opt.Offset != 0 || opt.Count != -1}
}
func (s *RefStore) ZRange(c *redis.Conn, key string, start int, stop int, opt redis.ZRangeOption) (*redis.Message, error) {
	return s.do(c, "ZRange", func(db model.DB) resp.Value { return db.ZRange(key, start, stop, zopts(opt)) })
}
func (s *RefStore) ZRangeByScore(c *redis.Conn, key string, min float64, max float64, opt redis.ZRangeOption) (*redis.Message, error) {
	return s.do(c, "ZRangeByScore", func(db model.DB) resp.Value { return db.ZRangeByScore(key, min, max, zopts(opt)) })
}
func (s *RefStore) ZRem(c *redis.Conn, key string, members []string) (*redis.Message, error) {
	return s.do(c, "ZRem", func(db model.DB) resp.Value { return db.ZRem(key, members) })
}
func (s *RefStore) ZScore(c *redis.Conn, key string, member string) (*redis.Message, error) {
	return s.do(c, "ZScore", func(db model.DB) resp.Value { return db.ZScore(key, member) })
}
func (s *RefStore) ZIncBy(c *redis.Conn, key string, inc float64, member string) (*redis.Message, error) {
	return s.do(c, "ZIncBy", func(db model.DB) resp.Value { return db.ZIncrBy(key, inc, member) })
}
