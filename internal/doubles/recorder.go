// Package doubles holds the handler test doubles: a recording handler, a
// model-backed reference store and a tracer double.
package doubles

import (
	"errors"
	"fmt"
	"io"
	"net"
	"os"
	"strconv"
	"strings"
	"sync"
	"time"

	"github.com/cybergarage/go-redis/redis"
	"github.com/cybergarage/go-redis/redis/glob"
	"github.com/cybergarage/go-redis/redis/proto"

	"verif/internal/canon"
	"verif/internal/connsim"
	"verif/internal/resp"
)

// Call is one recorded handler invocation.
type Call struct {
	Seq     int
	Method  string
	Args    []string // canonical rendering (package canon)
	DB      int
	Auth    bool
	Conn    *connsim.ScriptConn // the transport the request arrived on (nil if it is not a scripted connection)
	ConnID  int
	Frames  int // complete reply frames on that connection when the call was made = index of the request being served
	Token   string
	At      time.Time
	Ret     *resp.Value // what the double returned (nil message => nil)
	RetErr  string
	Pattern *glob.Glob // SCAN only: the matcher received
}

// Result is a scripted handler result.
type Result struct {
	Nil bool        // return a nil message
	Val *resp.Value // message to return
	Err string      // non-empty: return this error (together with Val if set)
	// ErrKind (with Err set): the error value is a well-known one - eof | unexpected-eof | closed-pipe | net-closed |
	// timeout (a net.Error) | wrapped-eof | wrapped-timeout - as a handler backed by a remote store would pass on
	ErrKind string
	// Odd: a message the public constructors allow but no decoder ever yields:
	// "nil-array" = redis.NewArrayMessageWithArray(nil); "no-type" = proto.NewMessageWithType(0) with a payload;
	// "unknown-type" = proto.NewMessageWithType(99); "nil-in-array" = an array message holding a nil element; "nil-in-big-array" = the same behind 8 KiB of elements
	Odd string
}

// Recorder implements redis.UserCommandHandler and redis.AuthCommandHandler.
// It is race-free (own mutex) and never panics.
type Recorder struct {
	mu    sync.Mutex
	Calls []Call
	Log   *connsim.Log
	// ResultFn decides what a call returns; nil = DefaultResult.
	ResultFn func(c *Call) Result
	// TokenKey: if set, the value stored under this key in the connection's sync.Map is recorded.
	TokenKey any
	// Gate, if set, is called before the result is produced (turnstile for controlled schedules).
	Gate func(c *Call)
	// Discard: calls are counted but not retained (long churn runs whose oracle never reads the calls).
	Discard bool
	nseq    int
}

func NewRecorder() *Recorder { return &Recorder{} }

func (r *Recorder) Snapshot() []Call {
	r.mu.Lock()
	defer r.mu.Unlock()
	return append([]Call{}, r.Calls...)
}

func (r *Recorder) Reset() {
	r.mu.Lock()
	r.Calls = nil
	r.mu.Unlock()
}

// ToMessage converts a value tree into a library message.
func ToMessage(v resp.Value) *redis.Message {
	switch v.Kind {
	case resp.Status:
		return proto.NewMessageWithType(proto.StringMessage).SetBytes(append([]byte{}, v.Data...))
	case resp.Error:
		return proto.NewMessageWithType(proto.ErrorMessage).SetBytes(append([]byte{}, v.Data...))
	case resp.Integer:
		return proto.NewMessageWithType(proto.IntegerMessage).SetBytes(append([]byte{}, v.Data...))
	case resp.Bulk:
		if v.Null {
			return proto.NewMessageWithType(proto.BulkMessage).SetBytes(nil)
		}
		return proto.NewMessageWithType(proto.BulkMessage).SetBytes(append([]byte{}, v.Data...))
	case resp.Array:
		m := proto.NewMessageWithType(proto.ArrayMessage).SetArray(proto.NewArray())
		for _, e := range v.Elems {
			m.Append(ToMessage(e))
		}
		return m
	}
	return nil
}

// DefaultResult returns, per method, a value of the shape the Redis command
// defines, tagged with the call sequence number so that replies can be matched to calls.
func DefaultResult(c *Call) Result {
	tag := "r" + strconv.Itoa(c.Seq)
	var v resp.Value
	switch c.Method {
	case "Set", "Rename", "Auth":
		v = resp.S("OK-" + tag)
	case "Type":
		v = resp.S("string-" + tag)
	case "Get", "HGet", "LIndex", "ZScore", "ZIncBy":
		v = resp.B("val-" + tag)
	case "Del", "Exists", "Expire", "TTL", "HDel", "HSet", "LPush", "RPush", "LLen", "SAdd", "SRem", "ZAdd", "ZRem":
		v = resp.I(int64(1000 + c.Seq))
	case "Keys", "LRange", "SMembers", "ZRange", "ZRangeByScore":
		v = resp.A(resp.B("m1-"+tag), resp.B("m2-"+tag))
	case "HGetAll":
		v = resp.A(resp.B("f1-"+tag), resp.B("v1-"+tag), resp.B("f2-"+tag), resp.B("v2-"+tag))
	case "LPop", "RPop":
		v = resp.B("pop-" + tag)
	case "Scan":
		v = resp.A(resp.B("0"), resp.A(resp.B("k-"+tag)))
	default:
		v = resp.S(tag)
	}
	return Result{Val: &v}
}

func (r *Recorder) record(conn *redis.Conn, method string, pattern *glob.Glob, args ...string) (*redis.Message, error) {
	c := Call{Method: method, Args: args, At: time.Now(), Pattern: pattern}
	if conn != nil {
		c.DB = conn.Database()
		c.Auth = conn.IsAuthrized()
		if sc, ok := conn.Conn.(*connsim.ScriptConn); ok {
			c.Conn = sc
			c.ConnID = sc.ID
			c.Frames = sc.FrameCount()
		} else {
			c.ConnID = -1
		}
		if r.TokenKey != nil {
			if v, ok := conn.Load(r.TokenKey); ok {
				if s, ok := v.(string); ok {
					c.Token = s
				}
			}
		}
	}
	r.mu.Lock()
	if r.Discard {
		c.Seq = r.nseq
		r.nseq++
	} else {
		c.Seq = len(r.Calls)
		r.Calls = append(r.Calls, c)
	}
	fn := r.ResultFn
	gate := r.Gate
	r.mu.Unlock()
	r.Log.Add(c.ConnID, "call", method, c.Seq)
	if gate != nil {
		gate(&c)
	}
	if fn == nil {
		fn = DefaultResult
	}
	res := fn(&c)
	var msg *redis.Message
	var err error
	if res.Val != nil && !res.Nil {
		msg = ToMessage(*res.Val)
	}
	switch res.Odd {
	case "nil-array":
		msg = redis.NewArrayMessageWithArray(nil)
	case "no-type":
		msg = proto.NewMessageWithType(proto.MessageType(0)).SetBytes([]byte("x"))
	case "unknown-type":
		msg = proto.NewMessageWithType(proto.MessageType(99)).SetBytes([]byte("x"))
	case "nil-in-big-array":
		// several KiB of good elements, then one that cannot be serialized
		arr := proto.NewArray()
		for i := 0; i < 200; i++ {
			arr.Append(redis.NewBulkMessage("0123456789012345678901234567890123456789"))
		}
		arr.Append(nil)
		msg = redis.NewArrayMessageWithArray(arr)
	case "walked-array":
		// an array the handler has read through before returning it (its read cursor is not at the start)
		arr := proto.NewArray()
		for _, x := range []string{"a", "b", "c"} {
			arr.Append(redis.NewBulkMessage(x))
		}
		arr.Next()
		arr.Next()
		msg = redis.NewArrayMessageWithArray(arr)
	case "nil-in-huge-array":
		// more than 64 KiB of good elements, then one that cannot be serialized
		arr := proto.NewArray()
		big := strings.Repeat("0123456789abcdef", 64)
		for i := 0; i < 100; i++ {
			arr.Append(redis.NewBulkMessage(big))
		}
		arr.Append(nil)
		msg = redis.NewArrayMessageWithArray(arr)
	case "nil-in-array":
		arr := proto.NewArray()
		arr.Append(redis.NewBulkMessage("a"))
		arr.Append(nil)
		msg = redis.NewArrayMessageWithArray(arr)
	}
	if res.Err != "" {
		err = errors.New(res.Err)
		switch res.ErrKind {
		case "eof":
			err = io.EOF
		case "unexpected-eof":
			err = io.ErrUnexpectedEOF
		case "closed-pipe":
			err = io.ErrClosedPipe
		case "net-closed":
			err = net.ErrClosed
		case "timeout":
			err = os.ErrDeadlineExceeded
		case "wrapped-eof":
			err = fmt.Errorf("backend read: %w", io.EOF)
		case "wrapped-timeout":
			err = &net.OpError{Op: "read", Net: "tcp", Err: os.ErrDeadlineExceeded}
		}
	}
	r.mu.Lock()
	if !r.Discard {
		if msg != nil {
			r.Calls[c.Seq].Ret = res.Val
		}
		r.Calls[c.Seq].RetErr = res.Err
	}
	r.mu.Unlock()
	return msg, err
}

// --- AuthCommandHandler

func (r *Recorder) Auth(conn *redis.Conn, username string, password string) (*redis.Message, error) {
	return r.record(conn, "Auth", nil, username, password)
}

// --- GenericCommandHandler

func (r *Recorder) Del(conn *redis.Conn, keys []string) (*redis.Message, error) {
	return r.record(conn, "Del", nil, canon.Strs(keys))
}

func (r *Recorder) Exists(conn *redis.Conn, keys []string) (*redis.Message, error) {
	return r.record(conn, "Exists", nil, canon.Strs(keys))
}

func (r *Recorder) Expire(conn *redis.Conn, key string, opt redis.ExpireOption) (*redis.Message, error) {
	return r.record(conn, "Expire", nil, key, strconv.FormatInt(opt.Time.UnixNano(), 10), canon.ExpireFlags(opt.NX, opt.XX, opt.GT, opt.LT))
}

func (r *Recorder) Keys(conn *redis.Conn, pattern string) (*redis.Message, error) {
	return r.record(conn, "Keys", nil, pattern)
}

func (r *Recorder) Rename(conn *redis.Conn, key string, newkey string, opt redis.RenameOption) (*redis.Message, error) {
	return r.record(conn, "Rename", nil, key, newkey, canon.Bool("NX", opt.NX))
}

func (r *Recorder) Type(conn *redis.Conn, key string) (*redis.Message, error) {
	return r.record(conn, "Type", nil, key)
}

func (r *Recorder) TTL(conn *redis.Conn, key string) (*redis.Message, error) {
	return r.record(conn, "TTL", nil, key)
}

func (r *Recorder) Scan(conn *redis.Conn, cursor int, opt redis.ScanOption) (*redis.Message, error) {
	return r.record(conn, "Scan", opt.MatchPattern, canon.Int(cursor), "COUNT="+canon.Int(opt.Count), "TYPE="+canon.Int(int(opt.Type)))
}

// --- StringCommandHandler

func (r *Recorder) Set(conn *redis.Conn, key string, val string, opt redis.SetOption) (*redis.Message, error) {
	return r.record(conn, "Set", nil, key, val, canon.SetOpt(opt.EX, opt.PX, opt.EXAT, opt.PXAT, opt.NX, opt.XX, opt.KEEPTTL, opt.GET))
}

func (r *Recorder) Get(conn *redis.Conn, key string) (*redis.Message, error) {
	return r.record(conn, "Get", nil, key)
}

// --- HashCommandHandler

func (r *Recorder) HDel(conn *redis.Conn, key string, fields []string) (*redis.Message, error) {
	return r.record(conn, "HDel", nil, key, canon.Strs(fields))
}

func (r *Recorder) HSet(conn *redis.Conn, key string, field string, val string, opt redis.HSetOption) (*redis.Message, error) {
	return r.record(conn, "HSet", nil, key, field, val, canon.Bool("NX", opt.NX))
}

func (r *Recorder) HGet(conn *redis.Conn, key string, field string) (*redis.Message, error) {
	return r.record(conn, "HGet", nil, key, field)
}

func (r *Recorder) HGetAll(conn *redis.Conn, key string) (*redis.Message, error) {
	return r.record(conn, "HGetAll", nil, key)
}

// --- ListCommandHandler

func (r *Recorder) LPush(conn *redis.Conn, key string, elements []string, opt redis.PushOption) (*redis.Message, error) {
	return r.record(conn, "LPush", nil, key, canon.Strs(elements), canon.Bool("X", opt.X))
}

func (r *Recorder) RPush(conn *redis.Conn, key string, elements []string, opt redis.PushOption) (*redis.Message, error) {
	return r.record(conn, "RPush", nil, key, canon.Strs(elements), canon.Bool("X", opt.X))
}

func (r *Recorder) LPop(conn *redis.Conn, key string, count int) (*redis.Message, error) {
	return r.record(conn, "LPop", nil, key, canon.Int(count))
}

func (r *Recorder) RPop(conn *redis.Conn, key string, count int) (*redis.Message, error) {
	return r.record(conn, "RPop", nil, key, canon.Int(count))
}

func (r *Recorder) LRange(conn *redis.Conn, key string, start int, stop int) (*redis.Message, error) {
	return r.record(conn, "LRange", nil, key, canon.Int(start), canon.Int(stop))
}

func (r *Recorder) LIndex(conn *redis.Conn, key string, index int) (*redis.Message, error) {
	return r.record(conn, "LIndex", nil, key, canon.Int(index))
}

func (r *Recorder) LLen(conn *redis.Conn, key string) (*redis.Message, error) {
	return r.record(conn, "LLen", nil, key)
}

// --- SetCommandHandler

func (r *Recorder) SAdd(conn *redis.Conn, key string, members []string) (*redis.Message, error) {
	return r.record(conn, "SAdd", nil, key, canon.Strs(members))
}

func (r *Recorder) SMembers(conn *redis.Conn, key string) (*redis.Message, error) {
	return r.record(conn, "SMembers", nil, key)
}

func (r *Recorder) SRem(conn *redis.Conn, key string, members []string) (*redis.Message, error) {
	return r.record(conn, "SRem", nil, key, canon.Strs(members))
}

// --- ZSetCommandHandler

func (r *Recorder) ZAdd(conn *redis.Conn, key string, members []*redis.ZSetMember, opt redis.ZAddOption) (*redis.Message, error) {
	ms := make([]canon.ZMember, 0, len(members))
	for _, m := range members {
		if m == nil {
			ms = append(ms, canon.ZMember{Member: "<nil>"})
			continue
		}
		ms = append(ms, canon.ZMember{Score: m.Score, Member: m.Member})
	}
	return r.record(conn, "ZAdd", nil, key, canon.ZMembers(ms), canon.ZAddOpt(opt.XX, opt.NX, opt.LT, opt.GT, opt.CH, opt.INCR))
}

func (r *Recorder) ZRange(conn *redis.Conn, key string, start int, stop int, opt redis.ZRangeOption) (*redis.Message, error) {
	return r.record(conn, "ZRange", nil, key, canon.Int(start), canon.Int(stop), canon.ZRangeOpt(opt.REV, opt.WITHSCORES, opt.Offset, opt.Count))
}

func (r *Recorder) ZRangeByScore(conn *redis.Conn, key string, min float64, max float64, opt redis.ZRangeOption) (*redis.Message, error) {
	return r.record(conn, "ZRangeByScore", nil, key, canon.Float(min), canon.Float(max), canon.ZRangeByScoreOpt(opt.REV, opt.WITHSCORES, opt.MINEXCLUSIVE, opt.MAXEXCLUSIVE, opt.Offset, opt.Count))
}

func (r *Recorder) ZRem(conn *redis.Conn, key string, members []string) (*redis.Message, error) {
	return r.record(conn, "ZRem", nil, key, canon.Strs(members))
}

func (r *Recorder) ZScore(conn *redis.Conn, key string, member string) (*redis.Message, error) {
	return r.record(conn, "ZScore", nil, key, member)
}

func (r *Recorder) ZIncBy(conn *redis.Conn, key string, inc float64, member string) (*redis.Message, error) {
	return r.record(conn, "ZIncBy", nil, key, canon.Float(inc), member)
}
