package doubles

import (
	"context"
	"errors"
	"fmt"
	"sync"

	"github.com/cybergarage/go-tracing/tracer"
	"github.com/cybergarage/go-tracing/tracer/common"

	"verif/internal/connsim"
)

// Tracer is a tracer.Tracer double: spans are recording objects, and span
// contexts are go-tracing's own stack implementation (the discipline real tracers use).
type Tracer struct {
	mu        sync.Mutex
	Log       *connsim.Log
	next      int
	Spans     []*Span
	StartErrs int
}

// Span is a recording span.
type Span struct {
	tr       *Tracer
	ID       int
	Parent   int // 0 = root
	Name     string
	StartSeq int
	Finishes []int // sequence numbers of Finish calls
}

func NewTracer(log *connsim.Log) *Tracer { return &Tracer{Log: log} }

func (t *Tracer) SetPackageName(string) {}
func (t *Tracer) SetServiceName(string) {}
func (t *Tracer) SetEndpoint(string)    {}
func (t *Tracer) PackageName() string   { return "verif" }
func (t *Tracer) ServiceName() string   { return "verif" }
func (t *Tracer) Endpoint() string      { return "" }
func (t *Tracer) Start() error {
	// StartErrs: this many calls of Start fail first (a tracer whose exporter is not reachable yet)
	if t.StartErrs > 0 {
		t.StartErrs--
		return errors.New("tracer: exporter not reachable")
	}
	return nil
}
func (t *Tracer) Stop() error { return nil }

func (t *Tracer) newSpan(name string, parent int) *Span {
	t.mu.Lock()
	t.next++
	s := &Span{tr: t, ID: t.next, Parent: parent, Name: name}
	t.Spans = append(t.Spans, s)
	t.mu.Unlock()
	s.StartSeq = t.Log.Add(-1, "span-start", fmt.Sprintf("%d:%d:%s", s.ID, parent, name), s.ID)
	return s
}

func (t *Tracer) StartSpan(name string) tracer.Context {
	return common.NewSpanContextWith(t.newSpan(name, 0))
}

func (t *Tracer) Snapshot() []Span {
	t.mu.Lock()
	defer t.mu.Unlock()
	out := make([]Span, len(t.Spans))
	for i, s := range t.Spans {
		out[i] = *s
		out[i].Finishes = append([]int{}, s.Finishes...)
	}
	return out
}

func (s *Span) SetTag(key string, value any) {}

func (s *Span) Finish() {
	seq := s.tr.Log.Add(-1, "span-finish", fmt.Sprintf("%d", s.ID), s.ID)
	s.tr.mu.Lock()
	s.Finishes = append(s.Finishes, seq)
	s.tr.mu.Unlock()
}

func (s *Span) Context() context.Context { return context.Background() }

func (s *Span) StartSpan(name string) tracer.Context {
	return common.NewSpanContextWith(s.tr.newSpan(name, s.ID))
}
