// Package canon renders handler-call arguments in one canonical textual form,
// used both by the recording handler double (actual calls) and by the command
// grammar (expected calls).
package canon

import (
	"fmt"
	"strconv"
	"strings"
	"time"
)

func Str(s string) string { return s }

func Strs(ss []string) string {
	var b strings.Builder
	b.WriteString("[")
	for i, s := range ss {
		if i > 0 {
			b.WriteString(" ")
		}
		b.WriteString(strconv.Quote(s))
	}
	b.WriteString("]")
	return b.String()
}

func Int(n int) string { return strconv.Itoa(n) }

func Float(f float64) string { return strconv.FormatFloat(f, 'g', -1, 64) }

func TimeOrDash(t time.Time) string {
	if t.IsZero() {
		return "-"
	}
	return strconv.FormatInt(t.UnixNano(), 10)
}

func SetOpt(ex, px time.Duration, exat, pxat time.Time, nx, xx, keepttl, get bool) string {
	return fmt.Sprintf("EX=%d PX=%d EXAT=%s PXAT=%s NX=%t XX=%t KEEPTTL=%t GET=%t", int64(ex), int64(px), TimeOrDash(exat), TimeOrDash(pxat), nx, xx, keepttl, get)
}

func ExpireFlags(nx, xx, gt, lt bool) string {
	return fmt.Sprintf("NX=%t XX=%t GT=%t LT=%t", nx, xx, gt, lt)
}

func ZAddOpt(xx, nx, lt, gt, ch, incr bool) string {
	return fmt.Sprintf("XX=%t NX=%t LT=%t GT=%t CH=%t INCR=%t", xx, nx, lt, gt, ch, incr)
}

type ZMember struct {
	Score  float64
	Member string
}

func ZMembers(ms []ZMember) string {
	var b strings.Builder
	b.WriteString("[")
	for i, m := range ms {
		if i > 0 {
			b.WriteString(" ")
		}
		b.WriteString(Float(m.Score) + ":" + strconv.Quote(m.Member))
	}
	b.WriteString("]")
	return b.String()
}

// ZRangeOpt renders the option fields that a by-index call must carry.
func ZRangeOpt(rev, withscores bool, offset, count int) string {
	return fmt.Sprintf("REV=%t WITHSCORES=%t OFF=%d CNT=%d", rev, withscores, offset, count)
}

// ZRangeByScoreOpt renders the option fields that a by-score call must carry.
func ZRangeByScoreOpt(rev, withscores, minex, maxex bool, offset, count int) string {
	return fmt.Sprintf("REV=%t WITHSCORES=%t MINEX=%t MAXEX=%t OFF=%d CNT=%d", rev, withscores, minex, maxex, offset, count)
}

func Bool(name string, v bool) string { return fmt.Sprintf("%s=%t", name, v) }
