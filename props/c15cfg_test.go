package props

import (
	"crypto/tls"
	"fmt"
	"net"
	"runtime/debug"
	"strings"
	"time"

	"github.com/cybergarage/go-redis/redis"

	"verif/internal/connsim"
	"verif/internal/doubles"
	"verif/internal/resp"
	"verif/internal/sched"
)

// ---- C15, second evaluator: lifecycle calls mixed with run-time reconfiguration and Starts that fail ----
//
// Ops: start | stop | restart (lifecycle calls, each with a time limit) and, in between,
//   setport0 | setport | settlsport0 | settlsport      the embedding program disables / re-enables a port
//   config-port0 | config-tlsport0                      a client does it with CONFIG SET
//   occupy-tls | free-tls                               another socket takes / gives back the TLS port (a Start then fails)
//   drop-cert | restore-cert                            the TLS port is enabled without / with a certificate
//   tracer-fails-once                                   a tracer is installed whose Start() fails the first time it is called
//   clients=33|40|75                                    that many more clients connect and stay
//   start-again                                         Start is called on the running server
//   garbage=1100                                        1100 clients fail their handshake on the TLS port, one after the other
// Oracle: a lifecycle call returns within its time limit; when Start/Restart returns nil every port enabled by the
// configuration at that moment is served; after Stop returns no port the server ever listened on is held by the
// process, clients are closed, the registry is empty and no server goroutine remains. A Start/Restart that returns
// an error promises nothing (the sequence may go on with another Start or with Stop).

type c15Cfg struct {
	Ops []string `json:"ops"`
}

func evalC15Cfg(c c15Cfg) *Failure {
	lifecycleMu.Lock()
	defer lifecycleMu.Unlock()
	// no garbage collection during the scenario: a listener the server has lost track of must not be rescued by its finalizer
	defer debug.SetGCPercent(debug.SetGCPercent(-1))
	pk := sharedPKI()
	srv := redis.NewServer()
	srv.SetCommandHandler(doubles.NewRecorder())
	port, tlsPort := freePort(), freePort()
	srv.SetPort(port)
	srv.SetTLSPort(tlsPort)
	srv.ServerCert, srv.ServerKey, srv.CACerts = pk.Server.CertPEM, pk.Server.KeyPEM, pk.Root.CertPEM
	what := fmt.Sprintf("ops %v", c.Ops)
	plainOn, tlsOn := true, true // the configuration
	var occupier net.Listener
	defer func() {
		if occupier != nil {
			occupier.Close()
		}
	}()
	hung := false
	timed := func(name string, f func() error) (error, *Failure) {
		ch := make(chan error, 1)
		go func() { ch <- f() }()
		select {
		case err := <-ch:
			return err, nil
		case <-time.After(30 * time.Second):
			hung = true
			return nil, failf("c15|"+name+"-hangs", "%s: %s did not return within 30s", what, name)
		}
	}
	defer func() {
		if !hung {
			timed("cleanup-stop", srv.Stop)
		}
	}()
	var clients []net.Conn
	defer func() {
		for _, cl := range clients {
			cl.Close()
		}
	}()
	dial := func(useTLS bool) (net.Conn, error) {
		if useTLS {
			return tls.DialWithDialer(&net.Dialer{Timeout: 10 * time.Second}, "tcp", fmt.Sprintf("127.0.0.1:%d", tlsPort), pk.ClientConfig(pk.Client("verif-client", pk.Root, false)))
		}
		return net.DialTimeout("tcp", fmt.Sprintf("127.0.0.1:%d", port), 10*time.Second)
	}
	served := func(when string) *Failure {
		for _, useTLS := range []bool{false, true} {
			if (useTLS && !tlsOn) || (!useTLS && !plainOn) {
				continue
			}
			name := map[bool]string{false: "plain", true: "TLS"}[useTLS]
			cl, err := dial(useTLS)
			if err != nil {
				return failf("c15|not-accepting", "%s: %s: the %s port is enabled but a fresh client cannot connect: %v", what, when, name, err)
			}
			v, err := roundTrip(cl, resp.Cmd("PING").Bytes(), 10*time.Second)
			if err != nil || !v.Equal(resp.S("PONG")) {
				cl.Close()
				return failf("c15|not-serving", "%s: %s: the %s port is enabled but a fresh client was not served: %v %v", what, when, name, v, err)
			}
			clients = append(clients, cl) // stays connected: Stop has to close it
		}
		return nil
	}
	afterStop := func(when string) *Failure {
		// judged at the return of Stop, before anything else is waited for
		if n := len(srv.Conns()); n != 0 {
			return failf("c15|registry-not-empty", "%s: %s: the registry still holds %d connections when Stop returns", what, when, n)
		}
		for _, p := range []int{port, tlsPort} {
			if occupier != nil && p == tlsPort {
				continue
			}
			l, err := net.Listen("tcp", fmt.Sprintf(":%d", p))
			if err != nil {
				if holdsListener(p) {
					return failf("c15|port-held", "%s: %s: the process still holds a listening socket on port %d", what, when, p)
				}
				return failf("harness|bind-probe", "%s: %s: port %d cannot be bound although this process does not hold it: %v", what, when, p, err)
			}
			l.Close()
		}
		for i, cl := range clients {
			cl.SetReadDeadline(time.Now().Add(6 * time.Second))
			buf := make([]byte, 16)
			if _, err := cl.Read(buf); err == nil {
				return failf("c15|client-got-data", "%s: %s: client %d received data instead of a closed connection", what, when, i)
			} else if ne, ok := err.(net.Error); ok && ne.Timeout() {
				return failf("c15|client-still-open", "%s: %s: client %d is still connected (no EOF/reset within 6s)", what, when, i)
			}
			cl.Close()
		}
		clients = nil
		if n := len(srv.Conns()); n != 0 {
			return failf("c15|registry-not-empty", "%s: %s: the registry still holds %d connections", what, when, n)
		}
		if gs := sched.SettleNoServerGoroutines(15 * time.Second); len(gs) > 0 {
			return failf("c15|goroutine-left", "%s: %s: %d server goroutines remain after Stop:\n%s", what, when, len(gs), firstLines(gs[0], 12))
		}
		return nil
	}
	running, dirty := false, false         // dirty: a Start has failed since the last Stop
	listenPlain, listenTLS := false, false // the ports that were enabled when the server was last started (the configuration may have changed since)
	for i, op := range c.Ops {
		when := fmt.Sprintf("after op %d (%s)", i, op)
		switch op {
		case "start", "restart":
			if (op == "start" && running) || (op == "restart" && !running) {
				continue
			}
			f := srv.Start
			if op == "restart" {
				f = srv.Restart
			}
			err, fl := timed(op, f)
			if fl != nil {
				return fl
			}
			if err != nil {
				if occupier == nil && strings.Contains(err.Error(), "address already in use") && !holdsListener(port) && !holdsListener(tlsPort) {
					return failf("harness|port-taken", "%s: %s: %v", what, when, err)
				}
				// a failed Start/Restart promises nothing (the next Start may follow directly, or Stop)
				running, dirty = false, true
				for _, cl := range clients {
					cl.Close()
				}
				clients = nil
				continue
			}
			running = true
			listenPlain, listenTLS = plainOn, tlsOn
			if fl := served(when); fl != nil {
				return fl
			}
		case "start-again":
			// Start on a server that is running: it may fail or succeed, but the promise of the earlier Start holds until Stop
			if !running {
				continue
			}
			err, fl := timed("start", srv.Start)
			if fl != nil {
				return fl
			}
			if err == nil {
				listenPlain, listenTLS = plainOn, tlsOn
			} else {
				// the ports the running server listens on are the ones of its own Start
				savedPlain, savedTLS := plainOn, tlsOn
				plainOn, tlsOn = listenPlain, listenTLS
				fl := served(when + " (which failed: " + firstLines(err.Error(), 1) + ")")
				plainOn, tlsOn = savedPlain, savedTLS
				if fl != nil {
					return fl
				}
				continue
			}
			if fl := served(when); fl != nil {
				return fl
			}
		case "stop":
			if !running && !dirty {
				continue
			}
			err, fl := timed("stop", srv.Stop)
			if fl != nil {
				return fl
			}
			if err != nil {
				return failf("c15|stop-error", "%s: %s: Stop returned %v", what, when, err)
			}
			running, dirty = false, false
			if fl := afterStop(when); fl != nil {
				return fl
			}
		case "setport0":
			srv.SetPort(0)
			plainOn = false
		case "setport":
			srv.SetPort(port)
			plainOn = true
		case "settlsport0":
			srv.SetTLSPort(0)
			tlsOn = false
		case "settlsport":
			srv.SetTLSPort(tlsPort)
			tlsOn = true
		case "config-port0", "config-tlsport0":
			if !running || len(clients) == 0 {
				continue
			}
			key := map[string]string{"config-port0": "port", "config-tlsport0": "tls-port"}[op]
			if v, err := roundTrip(clients[0], resp.Cmd("CONFIG", "SET", key, "0").Bytes(), 10*time.Second); err == nil && v.Equal(resp.S("OK")) {
				if key == "port" {
					plainOn = false
				} else {
					tlsOn = false
				}
			}
		case "occupy-tls":
			if running || occupier != nil {
				continue
			}
			l, err := net.Listen("tcp", fmt.Sprintf(":%d", tlsPort))
			if err != nil {
				return failf("harness|occupy", "%v", err)
			}
			occupier = l
		case "free-tls":
			if occupier != nil {
				occupier.Close()
				occupier = nil
			}
		case "tracer-fails-once":
			// a tracer whose Start fails the first time it is called (if the server starts its tracer at all)
			tr := doubles.NewTracer(&connsim.Log{})
			tr.StartErrs = 1
			srv.SetTracer(tr)
		case "clients=40", "clients=75", "clients=33":
			if !running || !listenPlain {
				continue
			}
			var n int
			fmt.Sscanf(op, "clients=%d", &n)
			for k := 0; k < n; k++ {
				cl, err := dial(false)
				if err != nil {
					return failf("c15|not-accepting", "%s: %s: client %d cannot connect: %v", what, when, k, err)
				}
				clients = append(clients, cl)
			}
			// all of them are being served (registered) before the sequence goes on
			deadline := time.Now().Add(10 * time.Second)
			for len(srv.Conns()) < len(clients) && time.Now().Before(deadline) {
				time.Sleep(time.Millisecond)
			}
		case "garbage=1100":
			// that many clients fail their handshake on the TLS port, one after the other
			if !running || !listenTLS {
				continue
			}
			for k := 0; k < 1100; k++ {
				raw, err := net.DialTimeout("tcp", fmt.Sprintf("127.0.0.1:%d", tlsPort), 5*time.Second)
				if err != nil {
					return failf("c15|not-accepting", "%s: %s: client %d cannot connect to the TLS port: %v", what, when, k, err)
				}
				raw.Write([]byte("PING\r\n"))
				raw.SetReadDeadline(time.Now().Add(5 * time.Second))
				raw.Read(make([]byte, 64))
				raw.Close()
			}
			if fl := served(when); fl != nil {
				return fl
			}
		case "drop-cert":
			srv.ServerCert, srv.ServerKey = nil, nil
		case "restore-cert":
			srv.ServerCert, srv.ServerKey = pk.Server.CertPEM, pk.Server.KeyPEM
		}
	}
	return nil
}

// evalC15Shutdown: a lifecycle call made from inside a command (an application executor calling Stop or Restart)
// returns, and leaves the state Stop promises (see c19Shutdown).
func evalC15Shutdown(c c19Shutdown) *Failure {
	f := evalC19Shutdown(c)
	if f == nil {
		return nil
	}
	if strings.HasSuffix(f.Key, "-hangs") {
		return failf("c15|stop-hangs", "%s", f.Detail)
	}
	if strings.HasPrefix(f.Key, "harness|") {
		return f
	}
	return failf("c15|"+strings.TrimPrefix(f.Key, "c19|"), "%s", f.Detail)
}

// evalC15Unread: Stop returns and leaves the promised state also when a client has not read its reply (see c19Unread).
func evalC15Unread(c c19Unread) *Failure {
	f := evalC19Unread(c)
	if f == nil || strings.HasPrefix(f.Key, "harness|") {
		return f
	}
	if strings.HasSuffix(f.Key, "-hangs") {
		return failf("c15|stop-hangs", "%s", f.Detail)
	}
	return failf("c15|"+strings.TrimPrefix(f.Key, "c19|"), "%s", f.Detail)
}

func init() {
	register("c15.unread", evalC15Unread)
	register("c15.config", evalC15Cfg)
	register("c15.shutdown", evalC15Shutdown)
}
