package props

import (
	"crypto/tls"
	"fmt"
	"net"
	"os"
	"path/filepath"
	"strings"
	"sync/atomic"
	"testing"
	"time"

	"github.com/cybergarage/go-redis/redis"
	"github.com/cybergarage/go-redis/redis/auth"
	"pgregory.net/rapid"

	"verif/internal/certs"
	"verif/internal/connsim"
	"verif/internal/doubles"
	"verif/internal/resp"
)

// ---- C09: TLS client-certificate gate; failed handshakes are contained ----

type c09Case struct {
	Config string `json:"config"`           // ca | rule | rule+password
	Cred   string `json:"cred"`             // none | plaintext | selfsigned | foreign | expired | wrongname | intermediate-name | right
	Fault  string `json:"fault"`            // complete | abort | stall | garbage
	Order  string `json:"order"`            // faulty-first | valid-first
	Repeat int    `json:"repeat,omitempty"` // number of faulty clients (thorough: bursts)
	// CheckEvery: the well-behaved clients come after every n-th faulty client only (0: after each)
	CheckEvery int `json:"check_every,omitempty"`
}

func (c c09Case) String() string {
	return fmt.Sprintf("config=%s cred=%s fault=%s order=%s x%d", c.Config, c.Cred, c.Fault, c.Order, c.repeat())
}

func (c c09Case) repeat() int {
	if c.Repeat < 1 {
		return 1
	}
	return c.Repeat
}

const c09Rule = "verif-client"
const c09Password = "tls-secret"

var c09Counter int64

// c09Allowed: may a client with this credential that completes the handshake have commands executed?
func c09Allowed(config, cred string) bool {
	switch cred {
	case "right":
		return true
	case "wrongname", "intermediate-name", "name-upper", "name-title":
		return config == "ca"
	}
	return false
}

func c09ClientConfig(p *certs.PKI, cred string) *tls.Config {
	switch cred {
	case "none", "plaintext":
		return p.ClientConfig(nil)
	case "selfsigned":
		return p.ClientConfig(p.SelfSigned(c09Rule))
	case "foreign":
		return p.ClientConfig(p.Client(c09Rule, p.Foreign, false))
	case "expired":
		return p.ClientConfig(p.Client(c09Rule, p.Root, true))
	case "wrongname":
		return p.ClientConfig(p.Client("someone-else", p.Root, false))
	case "name-upper": // the rule's name in another letter case is another name
		return p.ClientConfig(p.Client(strings.ToUpper(c09Rule), p.Root, false))
	case "name-title":
		return p.ClientConfig(p.Client(strings.ToUpper(c09Rule[:1])+c09Rule[1:], p.Root, false))
	case "just-expired": // expired a few seconds ago
		return p.ClientConfig(p.ClientValidity(c09Rule, p.Root, time.Now().Add(-time.Hour), time.Now().Add(-5*time.Second)))
	case "not-yet-valid": // valid from a few seconds in the future
		return p.ClientConfig(p.ClientValidity(c09Rule, p.Root, time.Now().Add(20*time.Second), time.Now().Add(time.Hour)))
	case "intermediate-name":
		// the leaf has another name; only its issuer (an intermediate CA) carries the rule name
		return p.ClientConfig(p.Client("someone-else", p.Intermediate, false))
	default:
		return p.ClientConfig(p.Client(c09Rule, p.Root, false))
	}
}

// closeAfterFirstWrite aborts the connection right after the ClientHello has been sent.
type closeAfterFirstWrite struct {
	net.Conn
	wrote bool
}

func (c *closeAfterFirstWrite) Write(b []byte) (int, error) {
	if c.wrote {
		return 0, net.ErrClosed
	}
	c.wrote = true
	n, err := c.Conn.Write(b)
	c.Conn.Close()
	return n, err
}

func evalC09(c c09Case) *Failure {
	lifecycleMu.Lock() // real listeners + goroutine profile: keep scenarios apart from the schedule-point tests
	defer lifecycleMu.Unlock()
	p := sharedPKI()
	srv := redis.NewServer()
	rec := doubles.NewRecorder()
	srv.SetCommandHandler(rec)
	srv.ServerCert, srv.ServerKey, srv.CACerts = p.Server.CertPEM, p.Server.KeyPEM, p.Root.CertPEM
	if c.Config != "ca" {
		srv.AddAuthenticator(auth.NewCertificateAuthenticatorWith(auth.WithCommonName(c09Rule)))
	}
	password := ""
	if c.Config == "rule+password" {
		password = c09Password
		srv.SetRequirePass(password)
	}
	port, tlsPort, err := startOnFreePorts(srv, true)
	if err != nil {
		return failf("harness|start", "Start: %v", err)
	}
	defer srv.Stop()
	what := c.String()
	tlsAddr := fmt.Sprintf("127.0.0.1:%d", tlsPort)
	plainAddr := fmt.Sprintf("127.0.0.1:%d", port)
	var holdOpen []net.Conn
	defer func() {
		for _, h := range holdOpen {
			h.Close()
		}
	}()
	uniq := func(tag string) string { return fmt.Sprintf("%s-%d", tag, atomic.AddInt64(&c09Counter, 1)) }
	callsFor := func(key string) int {
		n := 0
		for _, cl := range rec.Snapshot() {
			if len(cl.Args) > 0 && cl.Args[0] == key {
				n++
			}
		}
		return n
	}

	// a well-behaved TLS client: dial, handshake, AUTH if needed, PING, GET <unique key>
	validTLS := func(when string) (net.Conn, *Failure) {
		d := &net.Dialer{Timeout: 5 * time.Second}
		raw, err := d.Dial("tcp", tlsAddr)
		if err != nil {
			return nil, failf("c09|tls-listener-down", "%s: %s: a valid TLS client cannot connect: %v", what, when, err)
		}
		conn := tls.Client(raw, c09ClientConfig(p, "right"))
		conn.SetDeadline(time.Now().Add(5 * time.Second))
		if err := conn.Handshake(); err != nil {
			raw.Close()
			stacks := connsim.Stacks()
			if ne, ok := err.(net.Error); ok && ne.Timeout() {
				// structural evidence: some server goroutine sits in a TLS handshake while ours is not being performed
				blocked := strings.Contains(stacks, "go-redis/redis.(*Server)") && strings.Contains(stacks, ".Handshake")
				// confirm once with a longer deadline before judging (a loaded machine is not a defect)
				raw2, derr := d.Dial("tcp", tlsAddr)
				if derr == nil {
					conn2 := tls.Client(raw2, c09ClientConfig(p, "right"))
					conn2.SetDeadline(time.Now().Add(15 * time.Second))
					herr := conn2.Handshake()
					raw2.Close()
					if herr == nil {
						return nil, failf("harness|slow-handshake", "%s: %s: a valid handshake needed more than 5s (passed within 15s)", what, when)
					}
				}
				if blocked {
					return nil, failf("c09|handshake-blocks-accept", "%s: %s: a valid TLS client's handshake timed out (5s, confirmed with 15s) while the server sits in another client's handshake", what, when)
				}
				return nil, failf("c09|tls-not-serving", "%s: %s: a valid TLS client's handshake timed out (5s, confirmed with 15s)", what, when)
			}
			return nil, failf("c09|tls-not-serving", "%s: %s: a valid TLS client's handshake failed: %v", what, when, err)
		}
		if password != "" {
			if v, err := roundTrip(conn, resp.Cmd("AUTH", password).Bytes(), 10*time.Second); err != nil || !v.Equal(resp.S("OK")) {
				conn.Close()
				return nil, failf("c09|valid-auth-refused", "%s: %s: AUTH with the password on a valid TLS connection answered %v, %v", what, when, v, err)
			}
		}
		if v, err := roundTrip(conn, resp.Cmd("PING").Bytes(), 10*time.Second); err != nil || !v.Equal(resp.S("PONG")) {
			conn.Close()
			return nil, failf("c09|tls-not-serving", "%s: %s: PING on a valid TLS connection answered %v, %v", what, when, v, err)
		}
		key := uniq("valid")
		if _, err := roundTrip(conn, resp.Cmd("GET", key).Bytes(), 10*time.Second); err != nil || callsFor(key) != 1 {
			conn.Close()
			return nil, failf("c09|valid-not-executed", "%s: %s: GET of a valid TLS client was not executed (%v, calls %d)", what, when, err, callsFor(key))
		}
		return conn, nil
	}
	validPlain := func(when string) *Failure {
		conn, err := net.DialTimeout("tcp", plainAddr, 5*time.Second)
		if err != nil {
			return failf("c09|plain-listener-down", "%s: %s: a plain client cannot connect: %v", what, when, err)
		}
		defer conn.Close()
		v, err := roundTrip(conn, resp.Cmd("PING").Bytes(), 10*time.Second)
		if err != nil {
			return failf("c09|plain-not-serving", "%s: %s: PING on the plain port got no reply frame: %v", what, when, err)
		}
		if password == "" && !v.Equal(resp.S("PONG")) {
			return failf("c09|plain-not-serving", "%s: %s: PING on the plain port answered %s", what, when, v)
		}
		return nil
	}
	// the faulty client
	faulty := func(i int) *Failure {
		when := fmt.Sprintf("faulty client %d", i)
		raw, err := net.DialTimeout("tcp", tlsAddr, 5*time.Second)
		if err != nil {
			return failf("c09|tls-listener-down", "%s: %s cannot connect: %v", what, when, err)
		}
		key := uniq("faulty")
		switch c.Fault {
		case "stall":
			if c.Cred != "none" {
				// part of a ClientHello record header, then silence
				raw.Write([]byte{0x16, 0x03, 0x01, 0x02})
			}
			holdOpen = append(holdOpen, raw)
			return nil
		case "garbage":
			raw.Write([]byte("\x16\x03\x01\x00\x05hello-this-is-not-tls\r\n"))
			raw.SetReadDeadline(time.Now().Add(3 * time.Second))
			buf := make([]byte, 256)
			for {
				if _, err := raw.Read(buf); err != nil {
					break
				}
			}
			raw.Close()
			return nil
		case "abort":
			conn := tls.Client(&closeAfterFirstWrite{Conn: raw}, c09ClientConfig(p, c.Cred))
			conn.SetDeadline(time.Now().Add(3 * time.Second))
			conn.Handshake()
			raw.Close()
			return nil
		}
		// complete: the client does everything a client with this credential can do
		defer raw.Close()
		var conn net.Conn
		var cfg *tls.Config
		if c.Cred == "plaintext" {
			conn = raw
		} else {
			cfg = c09ClientConfig(p, c.Cred)
			cfg.ClientSessionCache = tls.NewLRUClientSessionCache(4) // a client library that resumes sessions
			tc := tls.Client(raw, cfg)
			tc.SetDeadline(time.Now().Add(5 * time.Second))
			tc.Handshake() // with TLS 1.3 a rejected certificate shows only on the first read
			conn = tc
		}
		var replies []string
		send := func(args ...string) {
			v, err := roundTrip(conn, resp.Cmd(args...).Bytes(), 3*time.Second)
			if err == nil {
				replies = append(replies, v.String())
			} else {
				replies = append(replies, "<"+firstLines(err.Error(), 1)+">")
			}
		}
		allowed := c09Allowed(c.Config, c.Cred)
		if password != "" && allowed {
			// before AUTH nothing runs
			pre := uniq("preauth")
			send("GET", pre)
			if callsFor(pre) != 0 {
				return failf("c09|executed-before-auth", "%s: %s: GET was executed on a TLS connection before AUTH", what, when)
			}
			// the certificate does not replace the password: a wrong one is refused, nothing runs after it
			send("AUTH", "not-"+password)
			wrongpw := uniq("wrongpw")
			send("GET", wrongpw)
			if callsFor(wrongpw) != 0 {
				return failf("c09|executed-after-wrong-password", "%s: %s: a TLS client with an acceptable certificate had a command executed after AUTH with a wrong password (replies %v)", what, when, replies)
			}
			send("AUTH", password)
		} else if password != "" {
			send("AUTH", password)
		}
		send("GET", key)
		n := callsFor(key)
		switch {
		case !allowed && n > 0:
			return failf("c09|executed-for-rejected-client|"+c.Cred, "%s: %s: a command was executed for a client whose credential (%s) must be rejected under config %s (replies %v)", what, when, c.Cred, c.Config, replies)
		case allowed && n != 1:
			return failf("c09|accepted-client-not-served|"+c.Cred, "%s: %s: the client's credential (%s) is acceptable under config %s but its GET was executed %d times (replies %v)", what, when, c.Cred, c.Config, n, replies)
		}
		if !allowed {
			// the connection must be closed, not merely silent
			conn.SetReadDeadline(time.Now().Add(2 * time.Second))
			buf := make([]byte, 64)
			_, err := conn.Read(buf)
			if ne, ok := err.(net.Error); err == nil || (ok && ne.Timeout()) {
				return failf("c09|rejected-client-not-disconnected|"+c.Cred, "%s: %s: the rejected client was not disconnected (%v)", what, when, err)
			}
			if cfg != nil {
				// the rejected client comes back, resuming whatever TLS session its first visit has left it with
				raw2, err := net.DialTimeout("tcp", tlsAddr, 5*time.Second)
				if err != nil {
					return failf("c09|tls-listener-down", "%s: %s cannot connect a second time: %v", what, when, err)
				}
				defer raw2.Close()
				tc2 := tls.Client(raw2, cfg)
				tc2.SetDeadline(time.Now().Add(5 * time.Second))
				tc2.Handshake()
				resumed := tc2.ConnectionState().DidResume
				conn = tc2
				key2 := uniq("faulty-second-visit")
				replies = nil
				if password != "" {
					send("AUTH", password)
				}
				send("GET", key2)
				if callsFor(key2) > 0 {
					return failf("c09|executed-for-rejected-client|"+c.Cred+"|second-visit", "%s: %s: on its second visit (session resumed: %v) a command was executed for a client whose credential (%s) must be rejected under config %s (replies %v)", what, when, resumed, c.Cred, c.Config, replies)
				}
			}
		}
		return nil
	}

	var first net.Conn
	if c.Order == "valid-first" {
		conn, f := validTLS("before the faulty client")
		if f != nil {
			return f
		}
		first = conn
		defer first.Close()
	}
	for i := 0; i < c.repeat(); i++ {
		if f := faulty(i); f != nil {
			return f
		}
		if c.CheckEvery > 1 && (i+1)%c.CheckEvery != 0 && i != c.repeat()-1 {
			continue
		}
		// after each faulty client - and while a staller is still connected - others are served
		conn, f := validTLS(fmt.Sprintf("after faulty client %d", i))
		if f != nil {
			return f
		}
		conn.Close()
		if f := validPlain(fmt.Sprintf("after faulty client %d", i)); f != nil {
			return f
		}
	}
	if first != nil {
		key := uniq("survivor")
		if _, err := roundTrip(first, resp.Cmd("GET", key).Bytes(), 5*time.Second); err != nil || callsFor(key) != 1 {
			return failf("c09|survivor-disturbed", "%s: the valid client connected before the faulty one is no longer served (%v)", what, err)
		}
	}
	return nil
}

// ---- configuration changed at run time: the gate follows the CA / rule that is configured when the server (re)starts ----

type c09Reconfig struct {
	Rule  bool     `json:"rule"`
	Steps []string `json:"steps"` // ca=root | ca=foreign | pass=<new password>, each followed by Restart (or Stop+Start)
	How   string   `json:"how"`   // restart | stopstart
	// Password: requirepass configured before the first Start ("" = none)
	Password string `json:"password,omitempty"`
}

func evalC09Reconfig(c c09Reconfig) *Failure {
	lifecycleMu.Lock()
	defer lifecycleMu.Unlock()
	p := sharedPKI()
	srv := redis.NewServer()
	rec := doubles.NewRecorder()
	srv.SetCommandHandler(rec)
	srv.ServerCert, srv.ServerKey, srv.CACerts = p.Server.CertPEM, p.Server.KeyPEM, p.Root.CertPEM
	if c.Rule {
		srv.AddAuthenticator(auth.NewCertificateAuthenticatorWith(auth.WithCommonName(c09Rule)))
	}
	password := c.Password
	if password != "" {
		srv.SetRequirePass(password)
	}
	_, tlsPort, err := startOnFreePorts(srv, true)
	if err != nil {
		return failf("harness|start", "Start: %v", err)
	}
	defer srv.Stop()
	tlsAddr := fmt.Sprintf("127.0.0.1:%d", tlsPort)
	ca := "root"
	// executed reports whether a GET of a client with this credential reached the handler
	executed := func(cred string) (bool, string) {
		key := fmt.Sprintf("reconf-%d", atomic.AddInt64(&c09Counter, 1))
		raw, err := net.DialTimeout("tcp", tlsAddr, 5*time.Second)
		if err != nil {
			return false, "dial: " + err.Error()
		}
		defer raw.Close()
		tc := tls.Client(raw, c09ClientConfig(p, cred))
		tc.SetDeadline(time.Now().Add(5 * time.Second))
		tc.Handshake()
		if password != "" {
			roundTrip(tc, resp.Cmd("AUTH", password).Bytes(), 5*time.Second)
		}
		v, err := roundTrip(tc, resp.Cmd("GET", key).Bytes(), 5*time.Second)
		n := 0
		for _, cl := range rec.Snapshot() {
			if len(cl.Args) > 0 && cl.Args[0] == key {
				n++
			}
		}
		return n > 0, fmt.Sprintf("%v, %v", v, err)
	}
	check := func(when string) *Failure {
		// clients of the configured CA (with the right name) are served, clients of the other CA are not
		own, other := "right", "foreign"
		if ca == "foreign" {
			own, other = "foreign", "right"
		}
		if ok, info := executed(other); ok {
			return failf("c09|executed-for-rejected-client|stale-ca", "%s: %s: a command was executed for a client whose certificate chains to the CA that is NOT configured (configured: %s) (%s)", c.describe(), when, ca, info)
		}
		if c.Rule {
			// the name rule holds in every configuration the sequence goes through
			wrong := "wrongname"
			if ca == "foreign" {
				wrong = "" // (no wrong-name certificate of the foreign CA in the PKI)
			}
			if wrong != "" {
				if ok, info := executed(wrong); ok {
					return failf("c09|executed-for-rejected-client|wrongname|reconfigured", "%s: %s: a command was executed for a client of the configured CA whose certificate does not carry the configured name (%s)", c.describe(), when, info)
				}
			}
		}
		if ok, info := executed(own); !ok {
			return failf("c09|accepted-client-not-served|stale-ca", "%s: %s: a client whose certificate chains to the configured CA (%s) and carries the right name was not served (%s)", c.describe(), when, ca, info)
		}
		return nil
	}
	if f := check("after the first Start"); f != nil {
		if strings.HasPrefix(f.Key, "c09|accepted") {
			return failf("harness|first-start", "%s", f.Detail)
		}
		return f
	}
	for i, st := range c.Steps {
		switch st {
		case "ca=foreign":
			srv.CACerts, ca = p.Foreign.CertPEM, "foreign"
		case "ca=root":
			srv.CACerts, ca = p.Root.CertPEM, "root"
		case "remove-unregistered":
			// the application removes an authenticator that is not (or no longer) registered - a no-op
			// (through an interface: trees before the repair beae9e9 do not have the method, and this package must build against them too)
			if r, ok := interface{}(srv.AuthManager).(interface{ RemoveAuthenticator(auth.Authenticator) }); ok {
				r.RemoveAuthenticator(auth.NewCertificateAuthenticatorWith(auth.WithCommonName("never-registered")))
			}
		default:
			if strings.HasPrefix(st, "pass=") {
				password = strings.TrimPrefix(st, "pass=")
				srv.SetRequirePass(password)
			}
		}
		if c.How == "stopstart" {
			srv.Stop()
			err = srv.Start()
		} else {
			err = srv.Restart()
		}
		if err != nil {
			if strings.Contains(err.Error(), "address already in use") {
				return failf("harness|restart", "%v", err)
			}
			return failf("c09|restart-failed", "%s: step %d (%s): %v", c.describe(), i, st, err)
		}
		if f := check(fmt.Sprintf("after step %d (%s) and %s", i, st, c.How)); f != nil {
			return f
		}
	}
	return nil
}

func (c c09Reconfig) describe() string {
	return fmt.Sprintf("rule=%v password=%q steps=%v how=%s", c.Rule, c.Password, c.Steps, c.How)
}

// ---- child-process tier: broken handshakes of every shape against a server process of its own ----

type c09Junk struct {
	Hello bool     `json:"hello"` // a well-formed ClientHello goes first
	Bytes resp.Bin `json:"bytes"` // then these bytes
}

type c09Child struct {
	Rule bool      `json:"rule"`
	Junk []c09Junk `json:"junk"`
	// HostTrustsForeign: the server process runs on a host whose trust store (SSL_CERT_FILE) contains the foreign CA;
	// only the configured CA may vouch for clients all the same
	HostTrustsForeign bool `json:"host_trusts_foreign,omitempty"`
}

// helloThenJunk lets the TLS client send its ClientHello and follows it with junk.
type helloThenJunk struct {
	net.Conn
	junk  []byte
	wrote bool
}

func (c *helloThenJunk) Write(b []byte) (int, error) {
	if c.wrote {
		return 0, net.ErrClosed
	}
	c.wrote = true
	n, err := c.Conn.Write(b)
	c.Conn.Write(c.junk)
	return n, err
}

func evalC09Child(c c09Child) *Failure {
	p := sharedPKI()
	base := os.Getenv("VERIF_PARTS_DIR")
	if base == "" {
		base = filepath.Join(verifRoot(), ".build")
	}
	dir, err := os.MkdirTemp(base, "pki")
	if err != nil {
		return failf("harness|tmp", "%v", err)
	}
	defer os.RemoveAll(dir)
	for name, data := range map[string][]byte{"server.crt": p.Server.CertPEM, "server.key": p.Server.KeyPEM, "ca.crt": p.Root.CertPEM} {
		if err := os.WriteFile(filepath.Join(dir, name), data, 0o600); err != nil {
			return failf("harness|tmp", "%v", err)
		}
	}
	rule := ""
	if c.Rule {
		rule = c09Rule
	}
	var extraEnv []string
	if c.HostTrustsForeign {
		if err := os.WriteFile(filepath.Join(dir, "host-trust.crt"), p.Foreign.CertPEM, 0o600); err != nil {
			return failf("harness|tmp", "%v", err)
		}
		extraEnv = []string{"SSL_CERT_FILE=" + filepath.Join(dir, "host-trust.crt"), "SSL_CERT_DIR=" + dir}
	}
	cs, err := startChildServerWith(0, dir, rule, extraEnv...)
	if err != nil {
		return failf("harness|child", "%v", err)
	}
	defer cs.stop()
	tlsAddr := fmt.Sprintf("127.0.0.1:%d", cs.tlsPort)
	valid := func(when string) *Failure {
		if !cs.alive() {
			return failf("c09|process-died", "%s: the server process died: %s", when, firstLines(cs.stderr.String(), 12))
		}
		for attempt := 0; ; attempt++ {
			conn, err := tls.DialWithDialer(&net.Dialer{Timeout: 10 * time.Second}, "tcp", tlsAddr, c09ClientConfig(p, "right"))
			if err == nil {
				v, rerr := roundTrip(conn, resp.Cmd("PING").Bytes(), 10*time.Second)
				conn.Close()
				if rerr == nil && v.Equal(resp.S("PONG")) {
					break
				}
				err = fmt.Errorf("PING answered %v, %v", v, rerr)
			}
			time.Sleep(20 * time.Millisecond)
			if !cs.alive() {
				return failf("c09|process-died", "%s: the server process died: %s", when, firstLines(cs.stderr.String(), 12))
			}
			if attempt == 1 {
				return failf("c09|tls-not-serving", "%s: a valid TLS client is not served by the server process: %v", when, err)
			}
		}
		pc, err := cs.dial()
		if err != nil {
			return failf("c09|plain-listener-down", "%s: a plain client cannot connect: %v", when, err)
		}
		defer pc.Close()
		if v, err := roundTrip(pc, resp.Cmd("PING").Bytes(), 10*time.Second); err != nil || !v.Equal(resp.S("PONG")) {
			return failf("c09|plain-not-serving", "%s: PING on the plain port answered %v, %v", when, v, err)
		}
		return nil
	}
	if f := valid("before any faulty client"); f != nil {
		if strings.HasPrefix(f.Key, "c09|process-died") {
			return f
		}
		return failf("harness|child-not-serving", "%s", f.Detail)
	}
	if c.HostTrustsForeign {
		// a client whose certificate chains to a CA the HOST trusts, but not to the configured CA
		for _, cred := range []string{"foreign", "selfsigned"} {
			raw, err := net.DialTimeout("tcp", tlsAddr, 5*time.Second)
			if err != nil {
				return failf("c09|tls-listener-down", "cannot connect: %v", err)
			}
			tc := tls.Client(raw, c09ClientConfig(p, cred))
			tc.SetDeadline(time.Now().Add(5 * time.Second))
			tc.Handshake()
			v, err := roundTrip(tc, resp.Cmd("PING").Bytes(), 3*time.Second)
			raw.Close()
			if err == nil && v.Equal(resp.S("PONG")) {
				return failf("c09|executed-for-rejected-client|"+cred+"|host-trust-store", "rule=%v: the host's trust store contains the foreign CA: a client with a %s certificate had PING executed (%s)", c.Rule, cred, v)
			}
		}
		if f := valid("after the clients of the host-trusted CA"); f != nil {
			return f
		}
	}
	for i, j := range c.Junk {
		when := fmt.Sprintf("rule=%v; after faulty client %d (ClientHello first: %v, then %q)", c.Rule, i, j.Hello, clip(j.Bytes))
		raw, err := net.DialTimeout("tcp", tlsAddr, 5*time.Second)
		if err != nil {
			if !cs.alive() {
				return failf("c09|process-died", "%s: the server process died: %s", when, firstLines(cs.stderr.String(), 12))
			}
			return failf("c09|tls-listener-down", "%s: cannot connect: %v", when, err)
		}
		if j.Hello {
			tc := tls.Client(&helloThenJunk{Conn: raw, junk: j.Bytes}, c09ClientConfig(p, "right"))
			tc.SetDeadline(time.Now().Add(2 * time.Second))
			tc.Handshake()
		} else {
			raw.Write(j.Bytes)
		}
		raw.SetReadDeadline(time.Now().Add(2 * time.Second))
		buf := make([]byte, 512)
		for {
			if _, err := raw.Read(buf); err != nil {
				break
			}
		}
		raw.Close()
		if f := valid(when); f != nil {
			return f
		}
	}
	return nil
}

var c09JunkFixed = []string{"\x16\x03\x01\x00\x05hello-this-is-not-tls\r\n", "\x16\x03\x01\xff\xff", "\x16\x03\x01\xff\xffAAAAAAAAAAAAAAAA", "\x16\x03\x03\x48\x01", "\x80\x2e\x01\x03\x01\x00\x15\x00\x00\x00\x10", "\x80", "\x80\x00",
	"*1\r\n$4\r\nPING\r\n", "GET / HTTP/1.0\r\n\r\n", "\x15\x03\x03\x00\x02\x02\x28", "\x17\x03\x03\x00\x10AAAAAAAAAAAAAAAA", "\x14\x03\x03\x00\x01\x01", "\x16\x03\x01\x00\x00\x16\x03\x01\x00\x00\x16\x03\x01\x00\x00",
	"\x16\x00\x00\x00\x04AAAA", "\x16\x03\x01\x00\x04\x01\xff\xff\xff", "\x00", "\xff\xff\xff\xff\xff\xff", ""}

func genC09Junk(rt *rapid.T) c09Junk {
	j := c09Junk{Hello: rapid.IntRange(0, 2).Draw(rt, "hello") == 0}
	switch rapid.IntRange(0, 3).Draw(rt, "junkcls") {
	case 0:
		j.Bytes = rapid.SliceOfN(rapid.Byte(), 1, 48).Draw(rt, "random")
	case 1:
		// a record header of drawn type, version and length, followed by fewer or more bytes
		hdr := []byte{rapid.SampledFrom([]byte{0x14, 0x15, 0x16, 0x17, 0x18, 0x80, 0x00}).Draw(rt, "rtype"), rapid.SampledFrom([]byte{0x03, 0x02, 0x00, 0xff}).Draw(rt, "vmaj"), rapid.SampledFrom([]byte{0x00, 0x01, 0x03, 0x04, 0xff}).Draw(rt, "vmin"),
			rapid.SampledFrom([]byte{0x00, 0x01, 0x40, 0x48, 0xff}).Draw(rt, "lenhi"), rapid.SampledFrom([]byte{0x00, 0x01, 0x05, 0xff}).Draw(rt, "lenlo")}
		j.Bytes = append(hdr, rapid.SliceOfN(rapid.Byte(), 0, 24).Draw(rt, "body")...)
	default:
		j.Bytes = []byte(rapid.SampledFrom(c09JunkFixed).Draw(rt, "fixed"))
	}
	return j
}

func init() {
	register("c09.scenario", evalC09)
	register("c09.child", evalC09Child)
	register("c09.reconfig", evalC09Reconfig)
}

func TestC09(t *testing.T) {
	h := newHarness(t, "C09", "the finite product, enumerated completely: server configuration {CA only, CA + common-name rule, rule + password} x client credential {no certificate, plain-text bytes on the TLS port, self-signed, leaf of a foreign CA, expired leaf, "+
		"right CA wrong name, right name only on an intermediate CA, right CA right name} x handshake fault {complete, abort after ClientHello, stall (held open), garbage record} x order {faulty client first, well-behaved client first} = 192 scenarios on real loopback TCP/TLS "+
		"with certificates generated at run time; a rejected client comes back a second time with a TLS session cache; bursts of 70 failing handshakes on one running server; thorough adds bursts of 2..5 faulty clients and shuffled orders. "+
		"RECONFIGURATION: the configured CA is replaced while the server runs and the server restarted (Restart or Stop+Start, with and without a name rule): afterwards only clients of the CA configured now are served. CHILD tier: the example server as a process of its own with a TLS listener; faulty clients send generated junk (random bytes, record headers of every type/version/length, SSLv2-style first bytes, oversized records, plain RESP/HTTP) as first bytes or after a well-formed ClientHello; after each the process must be alive and serve a valid TLS and a plain client. Oracle: handler calls attributed to client identities by unique keys may only stem from clients whose chain verifies and - with a rule - whose LEAF carries the name "+
		"(and that have sent AUTH where a password is set); rejected clients are disconnected; after each faulty client and while a staller is connected a valid TLS client handshakes and is served and a plain client gets a reply. "+
		"Non-trivial: every scenario with a non-accepted credential or a fault other than complete. Distinct = distinct scenario tuple.")
	defer h.Finish()
	h.Probes()

	configs := []string{"ca", "rule", "rule+password"}
	creds := []string{"none", "plaintext", "selfsigned", "foreign", "expired", "wrongname", "intermediate-name", "right"}
	faults := []string{"complete", "abort", "stall", "garbage"}
	orders := []string{"faulty-first", "valid-first"}
	n := 0
	complete := true
product:
	for _, cfg := range configs {
		for _, cred := range creds {
			for _, fault := range faults {
				for _, order := range orders {
					n++
					if n%h.NShards != h.Shard {
						continue
					}
					c := c09Case{Config: cfg, Cred: cred, Fault: fault, Order: order}
					nt := fault != "complete" || !c09Allowed(cfg, cred)
					h.Col.Case(nt, []byte(c.String()), "config:"+cfg, "cred:"+cred, "fault:"+fault)
					if h.Col.WantSample() {
						h.Col.Sample(c)
					}
					if !h.Report("c09.scenario", c, evalC09(c)) {
						complete = false
						break product
					}
				}
			}
		}
	}
	h.Col.Exhaustive("config x credential x fault x order (192 scenarios)", complete)

	// credentials at the edge: the right name in another letter case, a certificate that expired seconds ago or is not valid yet
	{
		k := 0
		for _, cfg := range configs {
			for _, cred := range []string{"name-upper", "name-title", "just-expired", "not-yet-valid"} {
				k++
				if k%h.NShards != h.Shard {
					continue
				}
				c := c09Case{Config: cfg, Cred: cred, Fault: "complete", Order: "faulty-first"}
				h.Col.Case(true, []byte(c.String()), "config:"+cfg, "cred:"+cred, "edge-credentials")
				h.Report("c09.scenario", c, evalC09(c))
			}
		}
	}

	// many failed handshakes on ONE running server, a well-behaved client after each
	long := []c09Case{{Config: "rule", Cred: "none", Fault: "complete", Order: "faulty-first", Repeat: 70}, {Config: "ca", Cred: "foreign", Fault: "complete", Order: "valid-first", Repeat: 70},
		{Config: "ca", Cred: "plaintext", Fault: "garbage", Order: "faulty-first", Repeat: 70}, {Config: "rule+password", Cred: "right", Fault: "abort", Order: "faulty-first", Repeat: 70}}
	long = append(long, c09Case{Config: "ca", Cred: "plaintext", Fault: "garbage", Order: "faulty-first", Repeat: 1100, CheckEvery: 100})
	for i, c := range long {
		if i%h.NShards != h.Shard {
			continue
		}
		h.Col.Case(true, []byte(c.String()), "long-burst")
		h.Report("c09.scenario", c, evalC09(c))
	}

	// the configured CA replaced at run time, then Restart / Stop+Start
	{
		k := 0
		for _, rule := range []bool{false, true} {
			for _, how := range []string{"restart", "stopstart"} {
				for si, steps := range [][]string{{"ca=foreign"}, {"ca=foreign", "ca=root"}, {"ca=root", "ca=foreign"}, {"pass=second"}, {"pass=second", "pass=third"}, {"pass=second", "ca=foreign"}, {"remove-unregistered"}, {"remove-unregistered", "remove-unregistered", "ca=foreign"}} {
					k++
					if k%h.NShards != h.Shard {
						continue
					}
					c := c09Reconfig{Rule: rule, Steps: steps, How: how}
					if si >= 3 && si <= 5 {
						c.Password = "first"
					}
					h.Col.Case(true, []byte("reconfig "+c.describe()), "ca-replaced-at-run-time")
					h.Report("c09.reconfig", c, evalC09Reconfig(c))
				}
			}
		}
	}

	// broken handshakes of every shape against a server process of its own (a panic there is a process death)
	if h.Shard == 0 {
		var all []c09Junk
		for _, hello := range []bool{false, true} {
			for _, b := range c09JunkFixed {
				all = append(all, c09Junk{Hello: hello, Bytes: []byte(b)})
			}
		}
		c := c09Child{Rule: true, Junk: all}
		h.Col.Case(true, []byte(fmt.Sprint("child-fixed", len(all))), "child-process")
		h.Report("c09.child", c, evalC09Child(c))
		for _, rule := range []bool{false, true} {
			c := c09Child{Rule: rule, HostTrustsForeign: true}
			h.Col.Case(true, []byte(fmt.Sprint("child-host-trust", rule)), "child-process", "host-trust-store")
			h.Report("c09.child", c, evalC09Child(c))
		}
	}
	h.Rapid("child", h.N(24, 3000)/h.NShards+1, func(rt *rapid.T) {
		c := c09Child{Rule: rapid.Bool().Draw(rt, "rule")}
		for i, n := 0, rapid.IntRange(1, 6).Draw(rt, "njunk"); i < n; i++ {
			c.Junk = append(c.Junk, genC09Junk(rt))
		}
		h.Col.Case(true, []byte(fmt.Sprint(c)), "child-process")
		h.Fail(rt, "c09.child", c, evalC09Child(c))
	})

	if h.Thorough() {
		h.Rapid("bursts", h.N(0, 6000)/h.NShards+1, func(rt *rapid.T) {
			c := c09Case{
				Config: rapid.SampledFrom(configs).Draw(rt, "config"), Cred: rapid.SampledFrom(creds).Draw(rt, "cred"),
				Fault: rapid.SampledFrom(faults).Draw(rt, "fault"), Order: rapid.SampledFrom(orders).Draw(rt, "order"), Repeat: rapid.IntRange(2, 5).Draw(rt, "repeat"),
			}
			h.Col.Case(true, []byte(c.String()), "burst")
			h.Fail(rt, "c09.scenario", c, evalC09(c))
		})
	}
}
