package props

import (
	"strconv"
	"strings"

	"pgregory.net/rapid"

	"verif/internal/cmdspec"
	"verif/internal/doubles"
	"verif/internal/resp"
)

// pipeCase is a pipeline of command requests with its delivery schedule and handler script.
type pipeCase struct {
	Reqs           [][]*resp.Bin `json:"reqs"`                // a null argument stands for a null bulk
	Sizes          []int         `json:"sizes"`               // chunk sizes of the request stream
	ErrCalls       []int         `json:"err_calls,omitempty"` // handler calls (by sequence number) that return an error
	ErrKinds       []string      `json:"err_kinds,omitempty"` // parallel to ErrCalls: "" (plain) | a doubles.Result.ErrKind | both (a message AND an error)
	NilCalls       []int         `json:"nil_calls,omitempty"` // handler calls that return neither a message nor an error
	NilKinds       []string      `json:"nil_kinds,omitempty"` // parallel to NilCalls: "" (nothing at all) | a doubles.Result.Odd (a message that cannot be serialized)
	GetMode        string        `json:"get_mode,omitempty"`
	GetValue       string        `json:"get_value,omitempty"`
	Password       string        `json:"password,omitempty"`         // C20: server requires this password
	Cut            int           `json:"cut,omitempty"`              // C20: stream ends after this many bytes (0 = complete)
	WriteFailAfter *int          `json:"write_fail_after,omitempty"` // C20: reply writes fail once this many bytes were written (the peer is gone)
	// C20: requests that are not arrays of bulk strings (a status line, an integer, a bulk, an empty or nested array, ...):
	// Odd[k] is sent before request OddPos[k] (OddPos[k] == len(Reqs): at the end)
	// C20: besides the password the server has a certificate rule (connections without a TLS state are turned away by
	// the authenticator chain without an error)
	CertRule bool         `json:"cert_rule,omitempty"`
	OddPos   []int        `json:"odd_pos,omitempty"`
	Odd      []resp.Value `json:"odd,omitempty"`
}

func (c pipeCase) values() []resp.Value {
	plain := c.plainValues()
	if len(c.Odd) == 0 {
		return plain
	}
	var out []resp.Value
	for i := 0; i <= len(plain); i++ {
		for k, pos := range c.OddPos {
			if pos == i && k < len(c.Odd) {
				out = append(out, c.Odd[k])
			}
		}
		if i < len(plain) {
			out = append(out, plain[i])
		}
	}
	return out
}

func (c pipeCase) plainValues() []resp.Value {
	out := make([]resp.Value, len(c.Reqs))
	for i, r := range c.Reqs {
		v := resp.Value{Kind: resp.Array}
		for _, a := range r {
			if a == nil {
				v.Elems = append(v.Elems, resp.Nil())
			} else {
				v.Elems = append(v.Elems, resp.BB(*a))
			}
		}
		out[i] = v
	}
	return out
}

func (c pipeCase) strings() []string {
	out := make([]string, len(c.Reqs))
	for i, r := range c.Reqs {
		var parts []string
		for _, a := range r {
			if a == nil {
				parts = append(parts, "<null>")
			} else {
				s := string(*a)
				if len(s) > 24 {
					s = s[:24] + "..."
				}
				parts = append(parts, strconvQuote(s))
			}
		}
		out[i] = strings.Join(parts, " ")
	}
	return out
}

func (c pipeCase) cmdName(i int) string {
	if len(c.Reqs[i]) == 0 || c.Reqs[i][0] == nil {
		return ""
	}
	return strings.ToUpper(string(*c.Reqs[i][0]))
}

func (c pipeCase) resultFn() func(cl *doubles.Call) doubles.Result {
	errSet := map[int]bool{}
	errKind := map[int]string{}
	for i, s := range c.ErrCalls {
		errSet[s] = true
		if i < len(c.ErrKinds) {
			errKind[s] = c.ErrKinds[i]
		}
	}
	nilSet := map[int]bool{}
	nilKind := map[int]string{}
	for i, s := range c.NilCalls {
		nilSet[s] = true
		if i < len(c.NilKinds) {
			nilKind[s] = c.NilKinds[i]
		}
	}
	base := getModeResult(c.GetMode, c.GetValue)
	return func(cl *doubles.Call) doubles.Result {
		if nilSet[cl.Seq] {
			return doubles.Result{Nil: true, Odd: nilKind[cl.Seq]}
		}
		if errSet[cl.Seq] {
			if errKind[cl.Seq] == "both" {
				r := base(cl)
				r.Err = "ERR scripted handler error"
				return r
			}
			return doubles.Result{Err: "ERR scripted handler error", ErrKind: errKind[cl.Seq]}
		}
		return base(cl)
	}
}

func binPtrs(args [][]byte) []*resp.Bin {
	out := make([]*resp.Bin, len(args))
	for i, a := range args {
		if a == nil {
			continue
		}
		b := resp.Bin(a)
		out[i] = &b
	}
	return out
}

var illTable = cmdspec.IllFormed()

// genPipeline draws a pipeline; labels describe what it contains.
func genPipeline(rt *rapid.T, avoid func(string) bool, maxReqs int, plain bool) (pipeCase, map[string]bool) {
	labels := map[string]bool{}
	g := &cmdspec.G{T: rt, Avoid: avoid, Plain: plain}
	n := rapid.IntRange(1, maxReqs).Draw(rt, "nreqs")
	c := pipeCase{}
	quitAt := -1
	if rapid.IntRange(0, 4).Draw(rt, "hasquit") == 0 {
		quitAt = rapid.IntRange(0, n-1).Draw(rt, "quitat")
	}
	for i := 0; i < n; i++ {
		if i == quitAt {
			c.Reqs = append(c.Reqs, binPtrs([][]byte{[]byte(g.Casing("QUIT"))}))
			if i == n-1 {
				labels["quit-last"] = true
			} else {
				labels["quit-not-last"] = true
			}
			continue
		}
		switch rapid.IntRange(0, 10).Draw(rt, "reqkind") {
		case 10:
			switch rapid.IntRange(0, 15).Draw(rt, "bigarg") {
			case 0:
			case 1:
				// a request of more elements than the parser's initial element buffer, with requests pipelined behind it
				wide := [][]byte{[]byte(g.Casing(rapid.SampledFrom([]string{"DEL", "EXISTS", "MGET"}).Draw(rt, "widecmd")))}
				for j, k := 0, rapid.SampledFrom([]int{1022, 1023, 1024, 1025, 1100, 2049}).Draw(rt, "width"); j < k; j++ {
					wide = append(wide, []byte("k"+strconv.Itoa(j)))
				}
				c.Reqs = append(c.Reqs, binPtrs(wide))
				labels["wide-request"] = true
				continue
			default:
				c.Reqs = append(c.Reqs, binPtrs([][]byte{[]byte("ECHO"), []byte("small")}))
				continue
			}
			// an argument larger than the parser's initial buffers, with requests pipelined behind it
			n := rapid.SampledFrom([]int{4096, 65534, 65535, 65536, 70000, 131073}).Draw(rt, "biglen")
			big := make([]byte, n)
			for j := range big {
				big[j] = byte('a' + j%23)
			}
			c.Reqs = append(c.Reqs, binPtrs([][]byte{[]byte(g.Casing("ECHO")), big}))
			labels["large-argument"] = true
		case 0:
			ill := illTable[rapid.IntRange(0, len(illTable)-1).Draw(rt, "ill")]
			c.Reqs = append(c.Reqs, binPtrs(ill.Args))
			labels["ill-formed"] = true
		case 1:
			name := rapid.SampledFrom(cmdspec.Names).Draw(rt, "cmd")
			if name == "QUIT" {
				name = "PING"
			}
			in := g.Gen(name)
			args := in.Args
			for j, k := 0, rapid.IntRange(1, 2).Draw(rt, "nsurplus"); j < k; j++ {
				args = append(args, []byte(g.Str()))
			}
			c.Reqs = append(c.Reqs, binPtrs(args))
			labels["surplus-args"] = true
		case 2:
			name := rapid.StringMatching(`[A-Za-z]{1,8}`).Draw(rt, "unk")
			if cmdspec.Has(strings.ToUpper(name)) {
				name += "_"
			}
			args := [][]byte{[]byte(name)}
			for j, k := 0, rapid.IntRange(0, 2).Draw(rt, "nunkargs"); j < k; j++ {
				args = append(args, []byte(g.Str()))
			}
			c.Reqs = append(c.Reqs, binPtrs(args))
			labels["unknown-command"] = true
		default:
			name := rapid.SampledFrom(cmdspec.Names).Draw(rt, "cmd")
			if name == "QUIT" {
				name = "ECHO"
			}
			in := g.Gen(name)
			c.Reqs = append(c.Reqs, binPtrs(in.Args))
			for _, f := range in.Features {
				if f == "option" {
					labels["option-bearing"] = true
				}
			}
			if in.Reply == cmdspec.ReplyFramework || in.GetMode != "" {
				labels["composed-command"] = true
			}
		}
	}
	c.GetMode = rapid.SampledFrom([]string{"", cmdspec.GetNull, cmdspec.GetInt, cmdspec.GetStr}).Draw(rt, "getmode")
	switch c.GetMode {
	case cmdspec.GetInt:
		c.GetValue = "41"
	case cmdspec.GetStr:
		c.GetValue = "text"
	}
	if rapid.IntRange(0, 2).Draw(rt, "herr") == 0 {
		k := rapid.IntRange(1, 3).Draw(rt, "nerr")
		for j := 0; j < k; j++ {
			c.ErrCalls = append(c.ErrCalls, rapid.IntRange(0, 2*n).Draw(rt, "errcall"))
			c.ErrKinds = append(c.ErrKinds, rapid.SampledFrom([]string{"", "", "", "both", "eof", "unexpected-eof", "closed-pipe", "net-closed", "timeout", "wrapped-eof", "wrapped-timeout"}).Draw(rt, "errkind"))
		}
		labels["handler-error"] = true
	}
	if rapid.IntRange(0, 5).Draw(rt, "hnil") == 0 {
		for j, k := 0, rapid.IntRange(1, 2).Draw(rt, "nnil"); j < k; j++ {
			c.NilCalls = append(c.NilCalls, rapid.IntRange(0, 2*n).Draw(rt, "nilcall"))
			c.NilKinds = append(c.NilKinds, rapid.SampledFrom([]string{"", "", "nil-array", "unknown-type", "nil-in-array", "nil-in-big-array", "nil-in-huge-array"}).Draw(rt, "nilkind"))
		}
		labels["handler-nil-result"] = true
	}
	data, _ := resp.EncodeAll(c.values())
	switch rapid.IntRange(0, 4).Draw(rt, "chunking") {
	case 0: // whole stream
	case 1: // per request
		_, ends := resp.EncodeAll(c.values())
		prev := 0
		for _, e := range ends {
			c.Sizes = append(c.Sizes, e-prev)
			prev = e
		}
		labels["chunk-per-request"] = true
	case 2: // per byte
		if len(data) <= 600 {
			for range data {
				c.Sizes = append(c.Sizes, 1)
			}
			labels["chunk-per-byte"] = true
		}
	default:
		c.Sizes = resp.GenSizes(data).Draw(rt, "sizes")
		if len(c.Sizes) > 0 {
			labels["chunk-random"] = true
		}
	}
	return c, labels
}
