package props

import (
	"bytes"
	"fmt"
	"strconv"
	"strings"
	"testing"
	"time"

	"github.com/cybergarage/go-redis/redis/proto"
	"pgregory.net/rapid"

	"verif/internal/resp"
)

// ---- C06: the parser is total on hostile input ----

type c06Case struct {
	Input resp.Bin `json:"input"`
	// Repeat builds the input as Unit repeated N times followed by Tail (for deep nesting
	// and long inputs whose literal form would bloat the replay file).
	Unit string `json:"unit,omitempty"`
	N    int    `json:"n,omitempty"`
	Tail string `json:"tail,omitempty"`
	// EOFWithData: the transport hands out the last bytes together with io.EOF
	EOFWithData bool `json:"eof_with_data,omitempty"`
}

func (c c06Case) bytes() []byte {
	if c.N > 0 {
		return append(bytes.Repeat([]byte(c.Unit), c.N), c.Tail...)
	}
	return c.Input
}

func boolByte(b bool) byte {
	if b {
		return 1
	}
	return 0
}

func panicClass(rec any) string {
	s := fmt.Sprint(rec)
	switch {
	case strings.Contains(s, "makeslice"):
		return "makeslice"
	case strings.Contains(s, "out of range"):
		return "bounds"
	case strings.Contains(s, "nil pointer"):
		return "nilderef"
	case strings.Contains(s, "out of memory"):
		return "oom"
	}
	if len(s) > 40 {
		s = s[:40]
	}
	return s
}

// evalC06 reads values from the input until end of stream or error.
func evalC06(c c06Case) (fl *Failure) {
	data := c.bytes()
	r := resp.NewChunkReader(data, nil)
	r.EOFWithData = c.EOFWithData
	r.Limit = 1000000 + 1000*len(data)
	defer func() {
		if rec := recover(); rec != nil {
			if sl, ok := rec.(resp.StepLimit); ok {
				fl = failf("c06|steps", "Next() did not finish within %d reads on a %d-byte input %q", sl.Reads, len(data), clip(data))
				return
			}
			fl = failf("c06|panic|"+panicClass(rec), "panic on input %q: %v", clip(data), rec)
		}
	}()
	p := proto.NewParserWithReader(r)
	for i := 0; i <= len(data)+1; i++ {
		m, err := p.Next()
		if err != nil || m == nil {
			return nil
		}
		if _, err := fromMsg(m); err != nil {
			return failf("c06|absent-element", "value %d parsed from %q is malformed: %v", i, clip(data), err)
		}
	}
	return failf("c06|no-progress", "parser returned more values than the %d-byte input has bytes", len(data))
}

// evalC06Long: a long stream of small valid values through one parser must not panic or exceed the read bound.
func evalC06Long(c c02Long) *Failure {
	f := evalC02Long(c)
	if f == nil {
		return nil
	}
	switch {
	case strings.HasSuffix(f.Key, "|panic"):
		return failf("c06|long|panic", "%s", f.Detail)
	case strings.HasSuffix(f.Key, "|steps"):
		return failf("c06|long|steps", "%s", f.Detail)
	}
	return nil
}

// hazardous reports whether the input declares a size that exceeds what the
// input could hold by more than 1Mi: such inputs are evaluated in the
// memory-limited child so that an allocation bomb cannot take the harness down.
func hazardous(data []byte) bool {
	for i := 0; i < len(data); i++ {
		if data[i] != '$' && data[i] != '*' {
			continue
		}
		j := i + 1
		for j < len(data) && j-i < 24 && data[j] >= '0' && data[j] <= '9' {
			j++
		}
		if j-i-1 >= 7 { // >= 7 digits: >= 10^6
			n, err := strconv.ParseUint(string(data[i+1:j]), 10, 64)
			if err != nil || n > uint64(len(data))+(1<<20) {
				return true
			}
		}
	}
	return false
}

var boundaryNums = []string{"-9223372036854775808", "-2", "-1", "0", "1", "2147483647", "2147483648", "4294967296", "10000000000000",
	"9223372036854775806", "9223372036854775807", "9223372036854775808", "18446744073709551616", "99999999999999999999", "+5", "0x10", "", " 1", "1 ", "1e3", "-0", "007", "1048576", "1048577", "536870912", "536870913"}

// bombs: the fixed list of allocation-bomb and boundary inputs (always evaluated in the child).
func c06Bombs() []c06Case {
	var out []c06Case
	for _, n := range boundaryNums {
		for _, t := range []string{"$", "*"} {
			out = append(out, c06Case{Input: []byte(t + n + "\r\n")})
			out = append(out, c06Case{Input: []byte(t + n + "\r\nabc\r\n")})
			out = append(out, c06Case{Input: []byte("*2\r\n" + t + n + "\r\n$1\r\na\r\n")})
		}
	}
	out = append(out,
		c06Case{Input: []byte("*1\r\n")}, c06Case{Input: []byte("*3\r\n$1\r\na\r\n")}, c06Case{Input: []byte("*1")}, c06Case{Input: []byte("*")},
		c06Case{Input: []byte("$")}, c06Case{Input: []byte("$3\r\nab")}, c06Case{Input: []byte("$3\r\nabcde")}, c06Case{Input: []byte("$-5\r\n")},
		c06Case{Input: []byte("*-5\r\n")}, c06Case{Input: []byte("?\r\n")}, c06Case{Input: []byte("\r\n")}, c06Case{Input: []byte{0}},
		// lines far longer than any limit a parser may have, with and without a terminator anywhere behind them
		c06Case{Unit: "x", N: 70000, Tail: ""}, c06Case{Unit: "+x", N: 40000, Tail: ""}, c06Case{Unit: "+x", N: 40000, Tail: "\r\n"}, c06Case{Unit: "-", N: 70000, Tail: "\r"},
		c06Case{Unit: ":1", N: 40000, Tail: ""}, c06Case{Unit: "$1", N: 40000, Tail: ""}, c06Case{Unit: "*1", N: 40000, Tail: ""}, c06Case{Unit: "$9", N: 70000, Tail: "\r\nab"},
		c06Case{Unit: "*1\r\n", N: 1000, Tail: "$1\r\na\r\n"},
		c06Case{Unit: "*1\r\n", N: 100000, Tail: "$1\r\na\r\n"},
		c06Case{Unit: "*1\r\n", N: 200000, Tail: ""},
		c06Case{Unit: "*2\r\n", N: 200000, Tail: ":1\r\n"},
		c06Case{Unit: "*1\r\n", N: 262143, Tail: "+\r\n"}, // just under 1 MiB
	)
	return out
}

// mutate applies one structure-aware mutation.
func mutate(rt *rapid.T, data []byte, other []byte) []byte {
	d := append([]byte{}, data...)
	pick := func(label string, n int) int {
		if n <= 0 {
			return 0
		}
		return rapid.IntRange(0, n-1).Draw(rt, label)
	}
	switch rapid.IntRange(0, 11).Draw(rt, "mut") {
	case 0: // truncate
		return d[:pick("at", len(d)+1)]
	case 1: // splice with another stream
		i, j := pick("i", len(d)+1), pick("j", len(other)+1)
		return append(d[:i:i], other[j:]...)
	case 2: // flip a byte
		if len(d) > 0 {
			i := pick("i", len(d))
			d[i] ^= byte(1 << uint(pick("bit", 8)))
		}
		return d
	case 3: // insert a byte
		i := pick("i", len(d)+1)
		b := rapid.SampledFrom([]byte{'\r', '\n', '$', '*', '+', '-', ':', '0', '9', 0, 0xff, ' '}).Draw(rt, "ins")
		return append(d[:i:i], append([]byte{b}, d[i:]...)...)
	case 4: // delete a byte
		if len(d) > 0 {
			i := pick("i", len(d))
			return append(d[:i:i], d[i+1:]...)
		}
		return d
	case 5: // duplicate a segment
		if len(d) > 0 {
			i := pick("i", len(d))
			j := i + pick("len", len(d)-i+1)
			return append(d[:j:j], d[i:]...)
		}
		return d
	case 6, 7, 8: // replace a length / count by a boundary number
		var pos [][2]int
		for i := 0; i < len(d); i++ {
			if d[i] == '$' || d[i] == '*' {
				j := i + 1
				for j < len(d) && (d[j] == '-' || (d[j] >= '0' && d[j] <= '9')) {
					j++
				}
				pos = append(pos, [2]int{i + 1, j})
			}
		}
		if len(pos) == 0 {
			return append([]byte("*"+rapid.SampledFrom(boundaryNums).Draw(rt, "num")+"\r\n"), d...)
		}
		p := pos[pick("which", len(pos))]
		var num string
		if rapid.IntRange(0, 3).Draw(rt, "numcls") == 0 {
			// off by a little from the real number
			old, _ := strconv.Atoi(string(d[p[0]:p[1]]))
			num = strconv.Itoa(old + rapid.SampledFrom([]int{-2, -1, 1, 2, 10}).Draw(rt, "delta"))
		} else {
			num = rapid.SampledFrom(boundaryNums).Draw(rt, "num")
		}
		return append(d[:p[0]:p[0]], append([]byte(num), d[p[1]:]...)...)
	case 9: // damage a CRLF
		occ := bytes.Count(d, []byte("\r\n"))
		if occ == 0 {
			return d
		}
		k := pick("occ", occ)
		at := 0
		for i := 0; i <= k; i++ {
			x := bytes.Index(d[at:], []byte("\r\n"))
			if x < 0 {
				return d
			}
			at += x
			if i < k {
				at += 2
			}
		}
		repl := rapid.SampledFrom([]string{"\n", "\r", "", "\r\r\n", "\n\r"}).Draw(rt, "repl")
		return append(d[:at:at], append([]byte(repl), d[at+2:]...)...)
	case 10: // change a type byte
		if len(d) > 0 {
			var tpos []int
			for i, c := range d {
				if (i == 0 || d[i-1] == '\n') && strings.IndexByte("+-:$*", c) >= 0 {
					tpos = append(tpos, i)
				}
			}
			if len(tpos) > 0 {
				d[tpos[pick("tp", len(tpos))]] = rapid.SampledFrom([]byte{'+', '-', ':', '$', '*', '!', '=', '%', '~', 0}).Draw(rt, "nt")
			}
		}
		return d
	default: // prepend an unterminated array header
		n := rapid.IntRange(0, 5).Draw(rt, "hdr")
		return append([]byte("*"+strconv.Itoa(n)+"\r\n"), d...)
	}
}

func bytesOf(b byte, n int) []byte {
	out := make([]byte, n)
	for i := range out {
		out[i] = b
	}
	return out
}

func init() {
	register("c06.input", evalC06)
	register("c06.long", evalC06Long)
}

func TestC06(t *testing.T) {
	h := newHarness(t, "C06", "byte strings up to 1MiB: structure-aware mutations of valid RESP streams (truncate, splice, flip, insert, delete, duplicate, "+
		"boundary lengths/counts, damaged CRLF, changed type bytes, dangling array headers; 1..3 mutations), a fixed list of allocation-bomb/boundary inputs and deep nesting up to 2^18 levels. "+
		"Oracle: Next() until end/error: no panic, no absent array element, read-count bound 10^6+1000*len; inputs declaring sizes far beyond their length run in a child under RLIMIT_AS=8GiB where process death is a violation. "+
		"Non-trivial: the input is not a canonical stream and is not rejected at its first byte. Distinct = distinct input bytes.")
	defer h.Finish()
	h.Probes()

	child := NewEvalChild(8 << 30)
	defer child.Close()
	viaChild := func(c c06Case) *Failure {
		f, died, status, err := child.Eval("c06.input", c, 120*time.Second)
		if err != nil {
			t.Fatalf("child worker: %v", err)
		}
		if died {
			key := "c06|abort"
			if strings.Contains(status, "out of memory") || strings.Contains(status, "cannot allocate") {
				key = "c06|abort|oom"
			} else if strings.Contains(status, "stack overflow") || strings.Contains(status, "stack exceeds") {
				key = "c06|abort|stack"
			} else if strings.Contains(status, "no answer within") {
				key = "c06|abort|timeout"
			}
			return failf(key, "the process died while parsing %q under RLIMIT_AS=8GiB: %s", clip(c.bytes()), status)
		}
		return f
	}
	classify := func(data []byte) (bool, []string) {
		_, _, err := resp.DecodeAll(data)
		valid := err == nil
		firstOK := len(data) > 0 && strings.IndexByte("+-:$*", data[0]) >= 0
		cl := []string{}
		if valid {
			cl = append(cl, "still-valid")
		} else if err == resp.ErrIncomplete {
			cl = append(cl, "truncated")
		} else {
			cl = append(cl, "invalid")
		}
		return !valid && firstOK, cl
	}

	// fixed list, in the child
	if h.Shard == 0 {
		for _, c := range c06Bombs() {
			nt, cl := classify(c.bytes())
			h.Col.Case(nt, c.bytes(), append(cl, "fixed-list", "in-child")...)
			if !h.Report("c06.input", c, viaChild(c)) {
				break
			}
		}
		h.Col.Exhaustive("fixed list of boundary lengths/counts x {$,*} x 3 contexts + nesting chains", true)
	}

	gen := resp.GenOpts{MaxBulk: 300, MaxArity: 5, MaxDepth: 3}
	h.Rapid("mutations", h.N(40000, 400000), func(rt *rapid.T) {
		n := rapid.IntRange(1, 4).Draw(rt, "n")
		var vs, os []resp.Value
		for i := 0; i < n; i++ {
			vs = append(vs, resp.GenValue(gen).Draw(rt, "v"))
		}
		os = append(os, resp.GenValue(gen).Draw(rt, "o"))
		data, _ := resp.EncodeAll(vs)
		other, _ := resp.EncodeAll(os)
		k := rapid.IntRange(1, 3).Draw(rt, "k")
		for i := 0; i < k; i++ {
			data = mutate(rt, data, other)
		}
		if len(data) > 1<<20 {
			data = data[:1<<20]
		}
		c := c06Case{Input: data, EOFWithData: rapid.IntRange(0, 3).Draw(rt, "eofwithdata") == 0}
		nt, cl := classify(data)
		if hazardous(data) {
			// throttle: only a fraction of the declared-size bombs are run in the loop (the fixed list covers the constants)
			h.Col.Case(nt, data, append(cl, "in-child")...)
			h.Fail(rt, "c06.input", c, viaChild(c))
			return
		}
		h.Col.Case(nt, data, cl...)
		if h.Col.WantSample() {
			h.Col.Sample(map[string]any{"input": string(clip(data)), "class": cl})
		}
		h.Fail(rt, "c06.input", c, evalC06(c))
	})

	// large (valid and damaged) arrays and bulks around the sizes at which growing buffers are re-allocated
	h.Rapid("large", h.N(600, 6000), func(rt *rapid.T) {
		var v resp.Value
		if rapid.Bool().Draw(rt, "array") {
			v = resp.GenValue(resp.GenOpts{MaxBulk: 8, MaxArity: 6, MaxDepth: 1}).Filter(func(x resp.Value) bool { return x.Kind == resp.Array && len(x.Elems) >= 255 }).Draw(rt, "bigarray")
		} else {
			n := rapid.SampledFrom([]int{65533, 65534, 65535, 65536, 65537, 131070, 131072, 131074, 262144, 300000}).Draw(rt, "biglen")
			v = resp.A(resp.BB(bytesOf(byte(rapid.IntRange(0, 255).Draw(rt, "fill")), n)), resp.I(7), resp.B("tail"))
		}
		data := v.Bytes()
		cls := "large-valid"
		switch rapid.IntRange(0, 3).Draw(rt, "damage") {
		case 0:
			data = mutate(rt, data, resp.Cmd("GET", "k").Bytes())
			cls = "large-mutated"
		case 1:
			// a bulk string of a large declared length whose payload stops early (or lacks only its CRLF)
			n := rapid.SampledFrom([]int{65536, 131072, 131073, 180000, 262144, 300000}).Draw(rt, "declared")
			have := rapid.IntRange(n/2, n+1).Draw(rt, "have")
			data = append([]byte("$"+strconv.Itoa(n)+"\r\n"), bytesOf('x', have)...)
			cls = "large-truncated"
		}
		if len(data) > 1<<20 {
			data = data[:1<<20]
		}
		c := c06Case{Input: data, EOFWithData: rapid.Bool().Draw(rt, "eofwithdata")}
		nt, cl := classify(data)
		h.Col.Case(nt || cls == "large-valid", append(append([]byte{}, data...), byte(len(cls)), boolByte(c.EOFWithData)), append(cl, cls)...)
		if hazardous(data) {
			h.Fail(rt, "c06.input", c, viaChild(c))
			return
		}
		h.Fail(rt, "c06.input", c, evalC06(c))
	})

	// large arrays inside large arrays, after earlier large arrays on the same parser (every element must be present)
	h.Rapid("nested-big", h.N(40, 1000), func(rt *rapid.T) {
		lc := c02Long{Pattern: "nested-big", N: rapid.IntRange(1, 3).Draw(rt, "n"), Sizes: []int{rapid.SampledFrom([]int{3, 1024, 1025, 1100, 2049}).Draw(rt, "arity")}}
		data, _ := lc.stream()
		c := c06Case{Input: data}
		h.Col.Case(true, []byte("nested-big "+lc.String()), "nested-big")
		h.Fail(rt, "c06.input", c, evalC06(c))
	})

	// long-lived parsers: many small valid values through one parser (state accumulated over a stream); only panics and the
	// read bound are judged here, exact values are C02's business
	h.Rapid("long-streams", h.N(30, 800), func(rt *rapid.T) {
		c := c02Long{Pattern: rapid.SampledFrom([]string{"bulks", "commands"}).Draw(rt, "pattern"), Chunk: rapid.SampledFrom([]int{0, 1460, 65536}).Draw(rt, "chunk")}
		for i, k := 0, rapid.IntRange(2, 7).Draw(rt, "nsizes"); i < k; i++ {
			c.Sizes = append(c.Sizes, rapid.SampledFrom([]int{0, 1, 1, 2, 3, 5, 8, 12, 13, 40, 100, 254, 255, 256, 257}).Draw(rt, "size"))
		}
		c.N = rapid.SampledFrom([]int{22000, 70000, 150000, 400000}).Draw(rt, "n")
		c.Seed = rapid.Uint32Range(1, 1<<31).Draw(rt, "seed")
		h.Col.Case(true, []byte("long "+c.String()), "long-stream")
		if f := evalC02Long(c); f != nil && (strings.HasSuffix(f.Key, "|panic") || strings.HasSuffix(f.Key, "|steps")) {
			h.Fail(rt, "c06.long", c, evalC06Long(c))
		}
	})

	h.Rapid("nesting", h.N(100, 2000), func(rt *rapid.T) {
		c := c06Case{
			Unit: rapid.SampledFrom([]string{"*1\r\n", "*2\r\n", "*1\r\n*0\r\n*1\r\n", "*-1\r\n*1\r\n"}).Draw(rt, "unit"),
			Tail: rapid.SampledFrom([]string{"", "$1\r\na\r\n", ":1\r\n", "*0\r\n", "$-1\r\n", "+"}).Draw(rt, "tail"),
		}
		max := (1 << 20) / len(c.Unit)
		if rapid.IntRange(0, 4).Draw(rt, "deepcls") == 0 {
			c.N = rapid.IntRange(max/2, max-2).Draw(rt, "ndeep")
		} else {
			c.N = rapid.IntRange(1, 5000).Draw(rt, "n")
		}
		data := c.bytes()
		nt, cl := classify(data)
		h.Col.Case(nt, data, append(cl, "nesting", "in-child")...)
		if h.Col.WantSample() {
			h.Col.Sample(map[string]any{"unit": c.Unit, "n": c.N, "tail": c.Tail})
		}
		h.Fail(rt, "c06.input", c, viaChild(c))
	})
	h.Col.Note("child_spawns", child.Spawns)
}
