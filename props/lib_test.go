package props

import (
	"fmt"

	"github.com/cybergarage/go-redis/redis/proto"

	"verif/internal/resp"
)

// toMsg builds a library message from a value tree using only the public API.
func toMsg(v resp.Value) *proto.Message {
	switch v.Kind {
	case resp.Status:
		return proto.NewMessageWithType(proto.StringMessage).SetBytes(append([]byte{}, v.Data...))
	case resp.Error:
		return proto.NewMessageWithType(proto.ErrorMessage).SetBytes(append([]byte{}, v.Data...))
	case resp.Integer:
		return proto.NewMessageWithType(proto.IntegerMessage).SetBytes(append([]byte{}, v.Data...))
	case resp.Bulk:
		if v.Null {
			return proto.NewMessageWithType(proto.BulkMessage).SetBytes(nil)
		}
		return proto.NewMessageWithType(proto.BulkMessage).SetBytes(append([]byte{}, v.Data...))
	case resp.Array:
		m := proto.NewMessageWithType(proto.ArrayMessage).SetArray(proto.NewArray())
		for _, e := range v.Elems {
			if err := m.Append(toMsg(e)); err != nil {
				panic(err)
			}
		}
		return m
	}
	panic("bad kind")
}

// fromMsg converts a library message to a value tree through the public accessors.
// A nil element inside an array (an "absent element") is reported as an error.
func fromMsg(m *proto.Message) (resp.Value, error) {
	if m == nil {
		return resp.Value{}, fmt.Errorf("nil message")
	}
	switch m.Type {
	case proto.StringMessage, proto.ErrorMessage, proto.IntegerMessage:
		b, err := m.Bytes()
		if err != nil {
			return resp.Value{}, err
		}
		k := map[proto.MessageType]resp.Kind{proto.StringMessage: resp.Status, proto.ErrorMessage: resp.Error, proto.IntegerMessage: resp.Integer}[m.Type]
		if b == nil {
			b = []byte{}
		}
		return resp.Value{Kind: k, Data: b}, nil
	case proto.BulkMessage:
		if m.IsNil() {
			return resp.Nil(), nil
		}
		b, err := m.Bytes()
		if err != nil {
			return resp.Value{}, err
		}
		return resp.Value{Kind: resp.Bulk, Data: b}, nil
	case proto.ArrayMessage:
		arr, err := m.Array()
		if err != nil {
			return resp.Value{}, err
		}
		if arr == nil {
			return resp.Value{}, fmt.Errorf("array message without array")
		}
		n := arr.Size()
		rest, err := arr.NextMessages()
		if err != nil {
			return resp.Value{}, err
		}
		if len(rest) != n {
			return resp.Value{}, fmt.Errorf("array reports %d elements but yields %d", n, len(rest))
		}
		v := resp.Value{Kind: resp.Array, Elems: make([]resp.Value, 0, n)}
		for i, e := range rest {
			if e == nil {
				return resp.Value{}, fmt.Errorf("absent element at index %d of %d", i, n)
			}
			x, err := fromMsg(e)
			if err != nil {
				return resp.Value{}, err
			}
			v.Elems = append(v.Elems, x)
		}
		return v, nil
	}
	return resp.Value{}, fmt.Errorf("unknown message type %d", m.Type)
}
