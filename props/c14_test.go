package props

import (
	"bufio"
	"crypto/tls"
	"encoding/json"
	"errors"
	"fmt"
	"net"
	"os"
	"os/exec"
	"path/filepath"
	"regexp"
	"runtime"
	"sort"
	"strings"
	"sync"
	"testing"
	"time"

	"github.com/cybergarage/go-redis/redis"
	"pgregory.net/rapid"

	"verif/internal/doubles"
	"verif/internal/resp"
)

// ---- C14: no data races in server state shared between connections ----

type c14Step struct {
	Cmd       []string `json:"cmd,omitempty"`
	Reconnect bool     `json:"reconnect,omitempty"`
	Yield     bool     `json:"yield,omitempty"`
	SleepUS   int      `json:"sleep_us,omitempty"`
	Raw       string   `json:"raw,omitempty"` // a request that carries no command (status line, integer, bulk, empty array, ...), sent as it is
}

type c14Plan struct {
	Clients   [][]c14Step `json:"clients"`
	Lifecycle []string    `json:"lifecycle"` // restart | stopstart | sleep
	Enumerate int         `json:"enumerate"` // iterations of the registry enumerator
	TLS       bool        `json:"tls"`
	Modes     []string    `json:"modes,omitempty"`    // per client: tcp (default) | tls (TLS port, client certificate) | pipe (in-memory connection through the real connection loop)
	Password  string      `json:"password,omitempty"` // requirepass configured before Start
}

type c14Batch struct {
	Plans []c14Plan `json:"plans"`
}

// closeErrConn: a connection whose Close reports an error although it closes (tls.Conn with an unreachable peer).
type closeErrConn struct{ net.Conn }

func (c closeErrConn) Close() error {
	c.Conn.Close()
	return errors.New("tls: failed to send closeNotify alert (but connection was closed anyway)")
}

// runC14Plan executes one workload plan against a started server (in the race-instrumented child).
func runC14Plan(p c14Plan) error {
	srv := redis.NewServer()
	srv.SetCommandHandler(doubles.NewRecorder())
	pk := sharedPKI()
	if p.TLS {
		srv.ServerCert, srv.ServerKey, srv.CACerts = pk.Server.CertPEM, pk.Server.KeyPEM, pk.Root.CertPEM
	}
	if p.Password != "" {
		srv.SetRequirePass(p.Password)
	}
	// certificate files for CONFIG SET tls-*-file (placeholders @cert @key @ca in the scripts)
	files := map[string]string{}
	if dir, err := os.MkdirTemp("", "c14pki"); err == nil {
		defer os.RemoveAll(dir)
		for name, data := range map[string][]byte{"@cert": pk.Server.CertPEM, "@key": pk.Server.KeyPEM, "@ca": pk.Root.CertPEM} {
			f := filepath.Join(dir, name[1:]+".pem")
			if os.WriteFile(f, data, 0o600) == nil {
				files[name] = f
			}
		}
	}
	port, tlsPort, err := startOnFreePorts(srv, p.TLS)
	if err != nil {
		return err
	}
	addr := fmt.Sprintf("127.0.0.1:%d", port)
	tlsAddr := fmt.Sprintf("127.0.0.1:%d", tlsPort)
	var tlsCfg *tls.Config
	if p.TLS {
		tlsCfg = pk.ClientConfig(pk.Client("verif-client", pk.Root, false))
	}
	var wg sync.WaitGroup
	var served sync.WaitGroup
	stopAll := make(chan struct{})
	for ci, script := range p.Clients {
		mode := "tcp"
		if ci < len(p.Modes) && p.Modes[ci] != "" {
			mode = p.Modes[ci]
		}
		if mode == "tls" && !p.TLS {
			mode = "tcp"
		}
		wg.Add(1)
		go func(script []c14Step, mode string) {
			defer wg.Done()
			var conn net.Conn
			dial := func() {
				if conn != nil {
					conn.Close()
				}
				switch mode {
				case "tls":
					c, err := tls.DialWithDialer(&net.Dialer{Timeout: time.Second}, "tcp", tlsAddr, tlsCfg)
					if err != nil {
						conn = nil
						return
					}
					conn = c
				case "pipe", "pipe-closeerr":
					a, b := net.Pipe()
					var sc net.Conn = b
					if mode == "pipe-closeerr" {
						sc = closeErrConn{b}
					}
					served.Add(1)
					go func() { defer served.Done(); srv.VerifServeConn(sc); b.Close() }()
					conn = a
				default:
					conn, _ = net.DialTimeout("tcp", addr, time.Second)
				}
			}
			dial()
			for _, st := range script {
				switch {
				case st.Reconnect:
					dial()
				case st.Yield:
					runtime.Gosched()
				case st.SleepUS > 0:
					time.Sleep(time.Duration(st.SleepUS) * time.Microsecond)
				default:
					if conn == nil {
						dial()
						if conn == nil {
							continue
						}
					}
					cmd := st.Cmd
					for i, a := range cmd {
						if f, ok := files[a]; ok {
							cmd = append(append([]string{}, cmd[:i]...), append([]string{f}, cmd[i+1:]...)...)
						}
					}
					req := resp.Cmd(cmd...).Bytes()
					if st.Raw != "" {
						req = []byte(st.Raw)
					}
					if _, err := roundTrip(conn, req, time.Second); err != nil {
						dial() // the server was restarted under us, or closed the connection
					}
				}
			}
			if conn != nil {
				conn.Close()
			}
		}(script, mode)
	}
	wg.Add(1)
	go func() { // registry enumeration
		defer wg.Done()
		for i := 0; i < p.Enumerate; i++ {
			for _, c := range srv.Conns() {
				if _, ok := srv.ConnByUUID(c.UUID()); !ok {
					runtime.Gosched()
				}
				_ = c.Timestamp()
			}
			runtime.Gosched()
		}
	}()
	wg.Add(1)
	go func() { // lifecycle calls
		defer wg.Done()
		for _, l := range p.Lifecycle {
			select {
			case <-stopAll:
				return
			default:
			}
			switch l {
			case "restart":
				srv.Restart()
			case "stopstart":
				srv.Stop()
				runtime.Gosched()
				srv.Start()
			case "setpass-restart":
				srv.SetRequirePass("pw2")
				srv.Restart()
			default:
				time.Sleep(300 * time.Microsecond)
			}
		}
	}()
	wg.Wait()
	close(stopAll)
	err = srv.Stop()
	served.Wait()
	return err
}

// childC14 is the worker mode of the race-instrumented binary.
func childC14() {
	var b c14Batch
	if err := json.NewDecoder(bufio.NewReader(os.Stdin)).Decode(&b); err != nil {
		fmt.Println("BAD-BATCH", err)
		os.Exit(66)
	}
	for i, p := range b.Plans {
		if err := runC14Plan(p); err != nil {
			fmt.Printf("PLAN-ERROR %d %v\n", i, err)
		}
	}
	fmt.Println("DONE", len(b.Plans))
	os.Exit(0)
}

type raceAccess struct {
	Kind  string // read | write
	Func  string // innermost non-runtime frame
	Stack []string
}

type raceReport struct {
	A, B raceAccess
	Text string
}

var accessRe = regexp.MustCompile(`^(Previous )?(atomic )?(read|write|Read|Write) at 0x[0-9a-f]+ by `)

func parseRaceReports(text string) []raceReport {
	var out []raceReport
	for _, block := range strings.Split(text, "==================") {
		if !strings.Contains(block, "WARNING: DATA RACE") {
			continue
		}
		var accs []raceAccess
		var cur *raceAccess
		for _, line := range strings.Split(block, "\n") {
			if m := accessRe.FindStringSubmatch(line); m != nil {
				accs = append(accs, raceAccess{Kind: strings.ToLower(m[3])})
				cur = &accs[len(accs)-1]
				continue
			}
			if strings.HasPrefix(line, "Goroutine ") || strings.TrimSpace(line) == "" {
				if strings.HasPrefix(line, "Goroutine ") {
					cur = nil
				}
				continue
			}
			if cur != nil && strings.HasPrefix(line, "  ") && !strings.HasPrefix(line, "      ") {
				fn := strings.TrimSpace(line)
				if i := strings.LastIndex(fn, "("); i > 0 {
					fn = fn[:i]
				}
				cur.Stack = append(cur.Stack, fn)
			}
		}
		if len(accs) < 2 {
			continue
		}
		for i := range accs {
			for _, fn := range accs[i].Stack {
				if strings.HasPrefix(fn, "runtime.") || strings.HasPrefix(fn, "sync.") || strings.HasPrefix(fn, "sync/atomic.") || strings.HasPrefix(fn, "internal/") {
					continue
				}
				accs[i].Func = fn
				break
			}
		}
		out = append(out, raceReport{A: accs[0], B: accs[1], Text: strings.TrimSpace(block)})
	}
	return out
}

const frameworkPrefix = "github.com/cybergarage/go-redis/redis"

func inFramework(fn string) bool {
	return strings.HasPrefix(fn, frameworkPrefix+".") || strings.HasPrefix(fn, frameworkPrefix+"/")
}

func (r raceReport) key() string {
	a := r.A.Func + "[" + r.A.Kind + "]"
	b := r.B.Func + "[" + r.B.Kind + "]"
	a, b = strings.TrimPrefix(a, "github.com/cybergarage/go-redis/"), strings.TrimPrefix(b, "github.com/cybergarage/go-redis/")
	if a > b {
		a, b = b, a
	}
	return "c14|race|" + a + "<->" + b
}

// evalC14Batch runs the batch in a race-instrumented child and turns framework races into a failure.
func evalC14Batch(b c14Batch) *Failure {
	bin := os.Getenv("VERIF_RACE_BIN")
	if bin == "" {
		return failf("harness|no-race-binary", "VERIF_RACE_BIN is not set")
	}
	dir, err := os.MkdirTemp(os.Getenv("VERIF_PARTS_DIR"), "race")
	if err != nil {
		dir, err = os.MkdirTemp(filepath.Join(verifRoot(), ".build"), "race")
		if err != nil {
			return failf("harness|tmp", "%v", err)
		}
	}
	defer os.RemoveAll(dir)
	cmd := exec.Command(bin)
	cmd.Env = append(os.Environ(), "VERIF_CHILD=c14", "GORACE=halt_on_error=0 exitcode=0 log_path="+filepath.Join(dir, "race"))
	in, _ := cmd.StdinPipe()
	errBuf := &tailBuf{}
	outBuf := &tailBuf{}
	cmd.Stderr, cmd.Stdout = errBuf, outBuf
	if err := cmd.Start(); err != nil {
		return failf("harness|race-child", "%v", err)
	}
	json.NewEncoder(in).Encode(b)
	in.Close()
	done := make(chan error, 1)
	go func() { done <- cmd.Wait() }()
	select {
	case err := <-done:
		if err != nil {
			txt := errBuf.String()
			if strings.Contains(txt, "concurrent map") {
				return failf("c14|fatal|concurrent-map", "the server process aborted: %s", firstLines(txt, 6))
			}
			if strings.Contains(txt, "panic:") || strings.Contains(txt, "fatal error:") {
				return failf("c14|fatal|abort", "the server process aborted: %s", firstLines(txt, 8))
			}
			return failf("harness|race-child", "child failed: %v: %s", err, firstLines(txt, 4))
		}
	case <-time.After(10 * time.Minute):
		cmd.Process.Kill()
		return failf("harness|race-child-timeout", "the race child did not finish")
	}
	if !strings.Contains(outBuf.String(), "DONE") {
		return failf("harness|race-child", "child did not complete: %s", firstLines(outBuf.String()+errBuf.String(), 5))
	}
	files, _ := filepath.Glob(filepath.Join(dir, "race*"))
	var all []raceReport
	for _, f := range files {
		data, _ := os.ReadFile(f)
		all = append(all, parseRaceReports(string(data))...)
	}
	byKey := map[string]raceReport{}
	for _, r := range all {
		if inFramework(r.A.Func) || inFramework(r.B.Func) {
			byKey[r.key()] = r
		}
	}
	if len(byKey) == 0 {
		return nil
	}
	var keys []string
	for k := range byKey {
		keys = append(keys, k)
	}
	sort.Strings(keys)
	r := byKey[keys[0]]
	return failf(keys[0], "the race detector reported %d distinct framework races (%v); first:\n%s", len(keys), keys, firstLines(r.Text, 40))
}

func init() { register("c14.batch", evalC14Batch) }

var c14Cmds = [][]string{{"GET", "k"}, {"SET", "k", "v"}, {"INCR", "n"}, {"APPEND", "k", "x"}, {"MSET", "a", "1", "b", "2"}, {"MGET", "a", "b"}, {"HSET", "h", "f", "v"}, {"HGETALL", "h"}, {"HKEYS", "h"},
	{"LPUSH", "l", "a"}, {"LPOP", "l"}, {"LRANGE", "l", "0", "-1"}, {"SADD", "s", "m"}, {"SMEMBERS", "s"}, {"SCARD", "s"}, {"ZADD", "z", "1", "m"}, {"ZRANGE", "z", "0", "-1"}, {"ZCARD", "z"},
	{"DEL", "k"}, {"EXISTS", "k"}, {"KEYS", "*"}, {"SCAN", "0"}, {"TYPE", "k"}, {"EXPIRE", "k", "10"}, {"TTL", "k"}, {"PING"}, {"ECHO", "x"}, {"SELECT", "1"}, {"AUTH", "p"}, {"NOSUCH"},
	{"CONFIG", "SET", "tls-cert-file", "@cert"}, {"CONFIG", "SET", "tls-key-file", "@key"}, {"CONFIG", "SET", "tls-ca-cert-file", "@ca"}, {"CONFIG", "GET", "tls-cert-file"}, {"CONFIG", "GET", "tls-ca-cert-file"},
	// parameter names of real Redis servers (a framework may give any of them a meaning of its own)
	{"CONFIG", "SET", "proto-max-bulk-len", "1048576"}, {"CONFIG", "SET", "maxclients", "10000"}, {"CONFIG", "SET", "timeout", "0"}, {"CONFIG", "SET", "tcp-keepalive", "300"}, {"CONFIG", "SET", "databases", "16"},
	{"CONFIG", "SET", "maxmemory", "0"}, {"CONFIG", "SET", "client-query-buffer-limit", "1073741824"}, {"CONFIG", "SET", "loglevel", "notice"}, {"CONFIG", "SET", "slowlog-log-slower-than", "10000"}, {"CONFIG", "GET", "proto-max-bulk-len"},
	{"AUTH", "pw"}, {"AUTH", "pw2"}, {"CONFIG", "SET", "requirepass", "pw"}, {"CONFIG", "SET", "requirepass", ""}, {"CONFIG", "GET", "requirepass"},
	{"CONFIG", "SET", "verif-a", "1"}, {"CONFIG", "SET", "verif-b", "2"}, {"CONFIG", "GET", "verif-a"}, {"CONFIG", "GET", "verif-a", "verif-b"}, {"CONFIG", "SET", "verif-a", "x", "verif-b", "y"}}

func genC14Plan(rt *rapid.T) c14Plan {
	p := c14Plan{Enumerate: rapid.IntRange(0, 400).Draw(rt, "enum"), TLS: rapid.IntRange(0, 2).Draw(rt, "tls") == 0}
	// a theme concentrates the plan on one kind of shared state, so that the accesses that can race actually meet
	theme := rapid.SampledFrom([]string{"mixed", "mixed", "auth", "config", "tls-config", "no-command", "churn"}).Draw(rt, "theme")
	if rapid.IntRange(0, 2).Draw(rt, "pass") == 0 || theme == "auth" {
		p.Password = "pw"
	}
	raws := []string{"+HELLO\r\n", ":1\r\n", "$4\r\nPING\r\n", "-ERR x\r\n", "*0\r\n", "*1\r\n$-1\r\n", "*1\r\n*0\r\n", "$-1\r\n"}
	auths := [][]string{{"AUTH", "pw"}, {"AUTH", "pw2"}, {"AUTH", "wrong"}, {"AUTH", "pw"}}
	nc := rapid.SampledFrom([]int{2, 3, 4, 8, 16, 32}).Draw(rt, "clients")
	for i := 0; i < nc; i++ {
		var script []c14Step
		for j, n := 0, rapid.IntRange(3, 30).Draw(rt, "steps"); j < n; j++ {
			k := rapid.IntRange(0, 11).Draw(rt, "step")
			if k >= 6 {
				// the themed half of the steps
				switch theme {
				case "auth":
					script = append(script, c14Step{Cmd: auths[rapid.IntRange(0, len(auths)-1).Draw(rt, "auth")]})
					continue
				case "tls-config":
					script = append(script, c14Step{Cmd: c14Cmds[rapid.IntRange(len(c14Cmds)-25, len(c14Cmds)-21).Draw(rt, "tlscfg")]})
					continue
				case "config":
					k = 4
				case "no-command":
					k = 3
				case "churn":
					k = 0
				}
			}
			switch k {
			case 0:
				script = append(script, c14Step{Reconnect: true})
			case 1:
				script = append(script, c14Step{Yield: true})
			case 2:
				script = append(script, c14Step{SleepUS: rapid.IntRange(1, 200).Draw(rt, "us")})
			case 3:
				script = append(script, c14Step{Raw: rapid.SampledFrom(raws).Draw(rt, "raw")})
			case 4, 5:
				script = append(script, c14Step{Cmd: c14Cmds[rapid.IntRange(len(c14Cmds)-25, len(c14Cmds)-1).Draw(rt, "cfg")]})
			default:
				script = append(script, c14Step{Cmd: c14Cmds[rapid.IntRange(0, len(c14Cmds)-1).Draw(rt, "cmd")]})
			}
		}
		p.Clients = append(p.Clients, script)
		modes := []string{"tcp", "tcp", "tcp", "tls", "tls", "pipe", "pipe-closeerr", "pipe-closeerr"}
		if theme == "auth" {
			modes = []string{"tcp", "pipe", "pipe", "pipe-closeerr"} // connections that survive a restart meet the next Start
		}
		p.Modes = append(p.Modes, rapid.SampledFrom(modes).Draw(rt, "mode"))
	}
	lives := []string{"restart", "stopstart", "setpass-restart", "sleep", "sleep"}
	if theme == "auth" {
		lives = []string{"setpass-restart", "setpass-restart", "restart", "sleep"}
	}
	if theme == "tls-config" {
		p.TLS = true
		lives = []string{"restart", "restart", "stopstart", "sleep"}
	}
	for j, n := 0, rapid.IntRange(0, 6).Draw(rt, "nlife"); j < n; j++ {
		p.Lifecycle = append(p.Lifecycle, rapid.SampledFrom(lives).Draw(rt, "life"))
	}
	return p
}

func c14Nontrivial(p c14Plan) bool {
	if len(p.Clients) < 2 {
		return false
	}
	for _, l := range p.Lifecycle {
		if l != "sleep" {
			return true
		}
	}
	for _, s := range p.Clients {
		for _, st := range s {
			if st.Reconnect || (len(st.Cmd) > 1 && st.Cmd[0] == "CONFIG" && st.Cmd[1] == "SET") {
				return true
			}
		}
	}
	return false
}

func TestC14(t *testing.T) {
	h := newHarness(t, "C14", "concurrent workload plans drawn from rapid: 2..32 clients (plain TCP port, TLS port with a client certificate, or in-memory connections through the real connection loop, mixed) against a started server with a race-free recording handler, with or without requirepass, each client a script over every command family with connect/disconnect churn, "+
		"AUTH, CONFIG SET/GET on shared parameters including requirepass, requests that carry no command, yields and microsecond delays; one goroutine enumerating Conns()/ConnByUUID, one issuing Stop/Start/Restart and SetRequirePass+Restart; plain or plain+TLS listeners. The plans run in a child process built with -race "+
		"(GORACE halt_on_error=0, log_path); oracle: the race detector - a report counts iff the innermost non-runtime frame of at least one of the two accesses is in github.com/cybergarage/go-redis/redis/..., reduced to an unordered pair of (function, read|write); "+
		"a 'concurrent map' abort of the child is a violation too. Non-trivial: >=2 clients overlapping and at least one of {CONFIG SET, churn, lifecycle call}. Distinct = distinct plan.")
	defer h.Finish()
	h.Probes()

	nplans := h.N(60, 8000) / h.NShards
	if nplans < 4 {
		nplans = 4
	}
	batchSize := 12
	nbatches := (nplans + batchSize - 1) / batchSize
	h.Rapid("batches", nbatches, func(rt *rapid.T) {
		var b c14Batch
		for i := 0; i < batchSize; i++ {
			p := genC14Plan(rt)
			b.Plans = append(b.Plans, p)
		}
		for _, p := range b.Plans {
			canon, _ := json.Marshal(p)
			h.Col.Case(c14Nontrivial(p), canon, fmt.Sprintf("clients:%d", len(p.Clients)))
			if h.Col.WantSample() {
				h.Col.Sample(map[string]any{"clients": len(p.Clients), "lifecycle": p.Lifecycle, "enumerate": p.Enumerate, "tls": p.TLS, "first_client_script": p.Clients[0]})
			}
		}
		h.Fail(rt, "c14.batch", b, evalC14Batch(b))
	})
}
