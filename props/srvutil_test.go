package props

import (
	"fmt"
	"os"
	"strings"
	"time"

	"github.com/cybergarage/go-redis/redis"

	"verif/internal/cmdspec"
	"verif/internal/connsim"
	"verif/internal/doubles"
	"verif/internal/resp"
)

// serveTimeout is the watchdog for one scripted connection. A served connection
// answers in microseconds; the deadline only matters for requests that never return.
func serveTimeout() time.Duration {
	if os.Getenv("VERIF_TIER") == "thorough" {
		return 60 * time.Second
	}
	return 30 * time.Second
}

func newRecServer() (*redis.Server, *doubles.Recorder) {
	srv := redis.NewServer()
	rec := doubles.NewRecorder()
	srv.SetCommandHandler(rec)
	return srv, rec
}

func encodeReqs(reqs [][]resp.Bin) ([]byte, []int) {
	var out []byte
	ends := make([]int, len(reqs))
	for i, r := range reqs {
		args := make([][]byte, len(r))
		for j, a := range r {
			args[j] = a
		}
		out = resp.CmdB(args...).Encode(out)
		ends[i] = len(out)
	}
	return out, ends
}

func binArgs(args [][]byte) []resp.Bin {
	out := make([]resp.Bin, len(args))
	for i, a := range args {
		out[i] = a
	}
	return out
}

func reqString(r []resp.Bin) string {
	parts := make([]string, len(r))
	for i, a := range r {
		s := fmt.Sprintf("%q", string(a))
		if len(s) > 40 {
			s = s[:37] + `..."`
		}
		parts[i] = s
	}
	return strings.Join(parts, " ")
}

func reqsString(rs [][]resp.Bin) []string {
	out := make([]string, len(rs))
	for i, r := range rs {
		out[i] = reqString(r)
	}
	return out
}

// stallFailure builds the verdict for a connection loop that did not return: the
// goroutine dump must show a server goroutine that is not parked in our Read.
func stallFailure(prefix string, what string) *Failure {
	st := connsim.Stacks()
	time.Sleep(200 * time.Millisecond)
	st2 := connsim.Stacks()
	inServer := func(s string) bool {
		for _, g := range strings.Split(s, "\n\n") {
			if strings.Contains(g, "VerifServeConn") && !strings.Contains(g, "connsim.(*ScriptConn).Read") && !strings.Contains(g, "sync.(*Cond).Wait") {
				return true
			}
		}
		return false
	}
	if inServer(st) && inServer(st2) {
		return failf(prefix+"|stall", "%s: the connection loop did not return within %s and is busy outside the transport (spin or endless loop)", what, serveTimeout())
	}
	return failf("harness|stall-unclear", "%s: no result within %s but the connection goroutine is not busy in the server; machine stall?", what, serveTimeout())
}

// getModeResult scripts Get/HGet results for composite commands.
func getModeResult(mode, value string) func(c *doubles.Call) doubles.Result {
	return func(c *doubles.Call) doubles.Result {
		if c.Method == "Get" || c.Method == "HGet" {
			switch mode {
			case cmdspec.GetNull:
				v := resp.Nil()
				return doubles.Result{Val: &v}
			case cmdspec.GetInt, cmdspec.GetStr:
				v := resp.B(value)
				return doubles.Result{Val: &v}
			}
		}
		return doubles.DefaultResult(c)
	}
}

func panicKey(o connsim.Outcome) string {
	cls := panicClass(o.Panic)
	// innermost frame in the repository (file basename), for a stable, specific key
	file := "?"
	lines := strings.Split(o.Stack, "\n")
	for i := 0; i+1 < len(lines); i++ {
		if !strings.Contains(lines[i], "github.com/cybergarage/go-redis/") || strings.Contains(lines[i], "VerifServe") {
			continue
		}
		loc := strings.TrimSpace(lines[i+1])
		if !strings.Contains(loc, ".go:") {
			continue
		}
		f := loc[strings.LastIndex(loc, "/")+1:]
		if j := strings.Index(f, ":"); j > 0 {
			f = f[:j]
		}
		file = f
		break
	}
	return cls + "|" + file
}
