package props

import (
	"fmt"
	"strconv"
	"strings"
	"testing"
	"time"

	"github.com/cybergarage/go-redis/redis"
	"pgregory.net/rapid"

	"verif/internal/cmdspec"
	"verif/internal/connsim"
	"verif/internal/doubles"
	"verif/internal/resp"
)

// ---- C13: connection-scoped state stays with its connection ----

type c13Case struct {
	Password string    `json:"password,omitempty"` // empty: no password required
	Conns    int       `json:"conns"`
	Steps    []c08Step `json:"steps"`
	TLS      bool      `json:"tls,omitempty"` // the connections are TLS connections (served with a TLS state)
	// Tracer: a tracer is installed on the server
	Tracer bool `json:"tracer,omitempty"`
	// SharedAddr: all connections report the same remote address (as net.Pipe connections do)
	SharedAddr bool `json:"shared_addr,omitempty"`
}

// c13Strict: data commands of which an authorized connection must make at least one handler call.
var c13Strict = map[string]bool{"GET": true, "SET": true, "HGET": true, "LPUSH": true, "INCR": true, "MGET": true, "ZCARD": true}

func (c c13Case) describe() string {
	var parts []string
	for _, s := range c.Steps {
		parts = append(parts, fmt.Sprintf("c%d: %s", s.Conn, reqPtrString(s.Req)))
	}
	return fmt.Sprintf("password %q; %s", c.Password, strings.Join(parts, " | "))
}

const tokenKey = "verif-token"

func evalC13(c c13Case) *Failure {
	srv, rec := newRecServer()
	rec.TokenKey = tokenKey
	srv.RegisterExexutor("REMEMBER", func(conn *redis.Conn, cmd string, args redis.Arguments) (*redis.Message, error) {
		tok, err := args.NextString()
		if err != nil {
			return nil, err
		}
		conn.Store(tokenKey, tok)
		return redis.NewOKMessage(), nil
	})
	srv.RegisterExexutor("REMEMBERONCE", func(conn *redis.Conn, cmd string, args redis.Arguments) (*redis.Message, error) {
		// get-or-create: the value is attached only if the connection has none yet
		tok, err := args.NextString()
		if err != nil {
			return nil, err
		}
		conn.LoadOrStore(tokenKey, tok)
		return redis.NewOKMessage(), nil
	})
	srv.RegisterExexutor("REPLACE", func(conn *redis.Conn, cmd string, args redis.Arguments) (*redis.Message, error) {
		tok, err := args.NextString()
		if err != nil {
			return nil, err
		}
		conn.Swap(tokenKey, tok)
		return redis.NewOKMessage(), nil
	})
	srv.RegisterExexutor("FORGET", func(conn *redis.Conn, cmd string, args redis.Arguments) (*redis.Message, error) {
		// the application drops everything it has stored on the connection (whole-map operations)
		conn.Range(func(key, value any) bool {
			conn.Delete(key)
			return true
		})
		return redis.NewOKMessage(), nil
	})
	if c.Password != "" {
		srv.SetPort(0)
		srv.SetRequirePass(c.Password)
		if err := srv.Start(); err != nil {
			return failf("harness|start", "Start: %v", err)
		}
		defer srv.Stop()
	}
	var served connsim.Server = srv
	if c.TLS {
		served = tlsServed{srv}
	}
	if c.Tracer {
		srv.SetTracer(doubles.NewTracer(&connsim.Log{}))
	}
	m := &connsim.Multi{Srv: served, Timeout: serveTimeout(), Log: &connsim.Log{}}
	if c.SharedAddr {
		m.SharedAddr = "pipe"
	}
	defer m.CloseAll()
	for i := 0; i < c.Conns; i++ {
		if err := m.Open(); err != nil {
			return failf("harness|multi", "opening connections: %v", err)
		}
	}
	what := c.describe()
	if c.TLS {
		what = "TLS connections; " + what
	}
	if c.Tracer {
		what = "tracer installed; " + what
	}
	if c.SharedAddr {
		what = "all connections report the same remote address; " + what
	}
	type state struct {
		db    int
		auth  bool
		token string
	}
	st := make([]state, c.Conns)
	for i := range st {
		st[i].auth = c.Password == ""
	}
	for si, step := range c.Steps {
		before := len(rec.Snapshot())
		frames, alive, err := m.Step(step.Conn, reqValue(step.Req).Bytes())
		if err != nil {
			return stallFailure("c13", what)
		}
		if o := m.Outcome(step.Conn); o != nil && o.Panic != nil {
			return failf("c13|panic|"+panicKey(*o), "%s: step %d panicked: %v", what, si, o.Panic)
		}
		if !alive || len(frames) != 1 {
			return failf("c13|reply-count", "%s: step %d got %d replies (alive %v)", what, si, len(frames), alive)
		}
		reply := frames[0]
		me := &st[step.Conn]
		name := strings.ToUpper(string(*step.Req[0]))
		desc := fmt.Sprintf("step %d (c%d: %s) answered %s", si, step.Conn, reqPtrString(step.Req), reply)
		newCalls := rec.Snapshot()[before:]
		if !cmdspec.Has(name) && name != "REMEMBER" && name != "FORGET" && name != "REMEMBERONCE" && name != "REPLACE" {
			// a command this harness has no grammar for (registered by the server under test): what it shows its
			// handler calls is its own business, but it must not run unauthorized and must leave the connection's state alone
			if !me.auth && len(newCalls) > 0 {
				return failf("c13|executed-unauthorized", "%s: %s on an unauthorized connection", what, desc)
			}
			continue
		}
		for _, cl := range newCalls {
			if cl.ConnID != step.Conn {
				return failf("c13|wrong-connection", "%s: %s: the handler call carried connection %d", what, desc, cl.ConnID)
			}
			if cl.DB != me.db {
				return failf("c13|database", "%s: %s: the handler saw database %d, this connection's own history selects %d", what, desc, cl.DB, me.db)
			}
			if cl.Auth != me.auth {
				return failf("c13|authorization", "%s: %s: the handler saw authorized=%v, this connection's own history gives %v", what, desc, cl.Auth, me.auth)
			}
			if cl.Token != me.token {
				return failf("c13|user-data", "%s: %s: the handler saw user data %q, this connection stored %q", what, desc, cl.Token, me.token)
			}
		}
		switch name {
		case "AUTH":
			right := len(step.Req) == 2 && string(*step.Req[1]) == c.Password && c.Password != ""
			if right != reply.Equal(resp.S("OK")) && c.Password != "" {
				return failf("c13|auth-outcome", "%s: %s", what, desc)
			}
			if right {
				me.auth = true
			}
		case "SELECT":
			if me.auth {
				n, _ := strconv.Atoi(string(*step.Req[1]))
				if n < 0 || n > 15 {
					// an unusual index may be accepted or refused; the connection's database follows the reply
					if reply.Equal(resp.S("OK")) {
						me.db = n
					} else if !reply.IsError() {
						return failf("c13|select-reply", "%s: %s", what, desc)
					}
					break
				}
				if !reply.Equal(resp.S("OK")) {
					return failf("c13|select-refused", "%s: %s", what, desc)
				}
				me.db = n
			} else if !reply.IsError() {
				return failf("c13|select-unauthorized", "%s: %s on an unauthorized connection", what, desc)
			}
		case "REMEMBER":
			if me.auth {
				if !reply.Equal(resp.S("OK")) {
					return failf("c13|remember-refused", "%s: %s", what, desc)
				}
				me.token = string(*step.Req[1])
			} else if !reply.IsError() {
				return failf("c13|remember-unauthorized", "%s: %s on an unauthorized connection", what, desc)
			}
		case "REMEMBERONCE", "REPLACE":
			if me.auth {
				if !reply.Equal(resp.S("OK")) {
					return failf("c13|remember-refused", "%s: %s", what, desc)
				}
				if name == "REPLACE" || me.token == "" {
					me.token = string(*step.Req[1])
				}
			} else if !reply.IsError() {
				return failf("c13|remember-unauthorized", "%s: %s on an unauthorized connection", what, desc)
			}
		case "FORGET":
			if me.auth {
				if !reply.Equal(resp.S("OK")) {
					return failf("c13|forget-refused", "%s: %s", what, desc)
				}
				me.token = "" // the user data is gone; database and authorization are not user data
			} else if !reply.IsError() {
				return failf("c13|forget-unauthorized", "%s: %s on an unauthorized connection", what, desc)
			}
		case "CONFIG":
			if me.auth && reply.IsError() {
				return failf("c13|config-refused", "%s: %s", what, desc)
			}
			if !me.auth && !reply.IsError() {
				return failf("c13|executed-unauthorized", "%s: %s on an unauthorized connection", what, desc)
			}
		default: // data command
			if !c13Strict[name] {
				if !me.auth && len(newCalls) > 0 {
					return failf("c13|executed-unauthorized", "%s: %s on an unauthorized connection", what, desc)
				}
				break
			}
			if me.auth && len(newCalls) == 0 {
				return failf("c13|not-executed", "%s: %s: no handler call on an authorized connection", what, desc)
			}
			if !me.auth && (len(newCalls) > 0 || !reply.IsError()) {
				return failf("c13|executed-unauthorized", "%s: %s on an unauthorized connection", what, desc)
			}
		}
	}
	return nil
}

// c13StopMid: Server.Stop arrives while a command composed of several handler operations is between its
// operations; the remaining operations must still see the connection's own database and authorization.
type c13StopMid struct {
	DB  int      `json:"db"`
	Cmd []string `json:"cmd"` // composed command, e.g. INCR k / APPEND k v / MSET ...
}

func evalC13StopMid(c c13StopMid) *Failure {
	srv, rec := newRecServer()
	rec.ResultFn = getModeResult("null", "")
	parked := make(chan struct{})
	release := make(chan struct{})
	first := true
	rec.Gate = func(cl *doubles.Call) {
		if cl.ConnID == 0 && cl.Frames == 1 && first { // first handler operation of the composed command
			first = false
			close(parked)
			<-release
		}
	}
	m, err := connsim.NewMulti(srv, 1, serveTimeout())
	if err != nil {
		return failf("harness|multi", "%v", err)
	}
	defer m.CloseAll()
	if _, _, err := m.Step(0, resp.Cmd("SELECT", strconv.Itoa(c.DB)).Bytes()); err != nil {
		return failf("harness|select", "%v", err)
	}
	m.Conns[0].Feed(resp.Cmd(c.Cmd...).Bytes())
	select {
	case <-parked:
	case <-time.After(serveTimeout()):
		return failf("harness|gate", "the composed command %v made no handler call", c.Cmd)
	}
	stopped := make(chan struct{})
	go func() { srv.Stop(); close(stopped) }()
	// Stop closes the registered connection; wait until it has done so, then let the command go on
	deadline := time.Now().Add(5 * time.Second)
	for !m.Conns[0].Closed() && time.Now().Before(deadline) {
		time.Sleep(time.Millisecond)
	}
	close(release)
	select {
	case <-stopped:
	case <-time.After(serveTimeout()):
		return failf("c13|stop-hangs", "Stop did not return while %v was in progress", c.Cmd)
	}
	time.Sleep(5 * time.Millisecond)
	m.CloseAll()
	for _, cl := range rec.Snapshot() {
		if cl.Frames >= 1 && (cl.DB != c.DB || !cl.Auth) {
			return failf("c13|state-lost-in-command", "SELECT %d; %v with Stop arriving between its handler operations: %s saw database %d authorized=%v", c.DB, c.Cmd, callStr(cl), cl.DB, cl.Auth)
		}
	}
	return nil
}

func init() {
	register("c13.steps", evalC13)
	register("c13.stopmid", evalC13StopMid)
}

func TestC13(t *testing.T) {
	h := newHarness(t, "C13", "2..8 scripted connections of one server; per connection a script of SELECT n (also unusual indexes) / AUTH (exact or clearly wrong password) / CONFIG SET requirepass|databases by another connection / data commands (the fixed seven, any well-formed command of the grammar, and every command the server has registered beyond the grammar, with generic arguments), on plain or TLS connections, with or without a tracer installed, with distinct or identical remote addresses, with occasional runs of 15..40 failed AUTHs on one connection (GET, SET, HGET, LPUSH, INCR) / REMEMBER t (an application executor storing a token in the connection's sync.Map); "+
		"password required in half of the cases. SYSTEMATIC: all 20 request-granularity interleavings of two connections with 3 requests each, for all script pairs over a 4-symbol alphabet (thorough; quick: a third of them); RANDOM: up to 8 connections, up to 6 requests each, random interleavings. "+
		"Oracle: every handler call must show conn.Database(), conn.IsAuthrized() and the stored token of THAT connection's own model. Non-trivial: at the time of some handler call two connections hold different database ids, authorization states or tokens. Distinct = distinct (password, step sequence).")
	defer h.Finish()
	h.Probes()

	nontrivial := func(c c13Case) bool {
		type state struct {
			db    string
			auth  bool
			token string
		}
		st := make([]state, c.Conns)
		for i := range st {
			st[i].auth = c.Password == ""
		}
		nt := false
		for _, s := range c.Steps {
			name := strings.ToUpper(string(*s.Req[0]))
			me := &st[s.Conn]
			switch name {
			case "AUTH":
				if len(s.Req) == 2 && string(*s.Req[1]) == c.Password {
					me.auth = true
				}
			case "SELECT":
				if me.auth {
					me.db = string(*s.Req[1])
				}
			case "REMEMBER":
				if me.auth {
					me.token = string(*s.Req[1])
				}
			case "CONFIG":
			default:
				for i := range st {
					if st[i] != *me {
						nt = true
					}
				}
			}
		}
		return nt
	}
	run := func(c c13Case, class string) bool {
		h.Col.Case(nontrivial(c), []byte(c.describe()), class)
		if h.Col.WantSample() {
			h.Col.Sample(map[string]any{"case": c.describe(), "class": class})
		}
		return h.Report("c13.steps", c, evalC13(c))
	}

	// systematic two-connection interleavings
	sym := func(conn int, s int) []*resp.Bin {
		switch s {
		case 0:
			return []*resp.Bin{bp("SELECT"), bp(strconv.Itoa(conn + 1))}
		case 1:
			return []*resp.Bin{bp("AUTH"), bp("sesame")}
		case 2:
			return []*resp.Bin{bp("GET"), bp("k")}
		default:
			return []*resp.Bin{bp("REMEMBER"), bp(fmt.Sprintf("tok%d", conn))}
		}
	}
	var orders [][]int
	var genOrders func(cur []int, a, b int)
	genOrders = func(cur []int, a, b int) {
		if a == 0 && b == 0 {
			orders = append(orders, append([]int{}, cur...))
			return
		}
		if a > 0 {
			genOrders(append(cur, 0), a-1, b)
		}
		if b > 0 {
			genOrders(append(cur, 1), a, b-1)
		}
	}
	genOrders(nil, 3, 3)
	stride := 3
	if h.Thorough() {
		stride = 1
	}
	n := 0
	complete := true
sys:
	for sa := 0; sa < 64; sa++ {
		for sb := 0; sb < 64; sb++ {
			n++
			if n%stride != 0 || (n/stride)%h.NShards != h.Shard {
				continue
			}
			scripts := [2][3]int{{sa % 4, sa / 4 % 4, sa / 16}, {sb % 4, sb / 4 % 4, sb / 16}}
			for _, ord := range orders {
				c := c13Case{Password: "sesame", Conns: 2}
				pos := [2]int{}
				for _, who := range ord {
					c.Steps = append(c.Steps, c08Step{Conn: who, Req: sym(who, scripts[who][pos[who]])})
					pos[who]++
				}
				if !run(c, "systematic-2conn") {
					complete = false
					break sys
				}
			}
		}
	}
	h.Col.Exhaustive(fmt.Sprintf("all 20 interleavings of two 3-request scripts over {SELECT,AUTH,GET,REMEMBER} for every %d-th script pair", stride), complete)

	if h.Shard == 0 {
		for _, cmd := range [][]string{{"INCR", "k"}, {"APPEND", "k", "v"}, {"MSET", "a", "1", "b", "2"}, {"MSETNX", "a", "1", "b", "2"}, {"DECRBY", "k", "3"}, {"HMSET", "h", "f", "v", "g", "w"}} {
			for _, db := range []int{3, 15} {
				c := c13StopMid{DB: db, Cmd: cmd}
				h.Col.Case(true, []byte(fmt.Sprint("stopmid", c)), "stop-mid-command")
				h.Report("c13.stopmid", c, evalC13StopMid(c))
			}
		}
	}

	// every command the server under test has registered, beyond the ones the grammar knows
	var extraNames []string
	for _, n := range redis.NewServer().VerifCommandNames() {
		if !cmdspec.Has(strings.ToUpper(n)) {
			extraNames = append(extraNames, n)
		}
	}
	h.Col.Note("registered_commands_without_grammar", len(extraNames))
	h.Rapid("random", h.N(5000, 200000), func(rt *rapid.T) {
		c := c13Case{Conns: rapid.IntRange(2, 8).Draw(rt, "conns"), TLS: rapid.IntRange(0, 3).Draw(rt, "tls") == 0, Tracer: rapid.IntRange(0, 3).Draw(rt, "tracer") == 0,
			SharedAddr: rapid.Bool().Draw(rt, "sharedaddr")}
		if rapid.Bool().Draw(rt, "pw") {
			c.Password = "sesame"
		}
		steps := rapid.IntRange(2, 6*c.Conns).Draw(rt, "steps")
		for i := 0; i < steps; i++ {
			who := rapid.IntRange(0, c.Conns-1).Draw(rt, "who")
			var r []*resp.Bin
			switch rapid.IntRange(0, 11).Draw(rt, "kind") {
			case 10:
				// any command of the grammar, well-formed (every handler call it makes is checked against the connection's state)
				name := rapid.SampledFrom(cmdspec.Names).Draw(rt, "anycmd")
				switch name {
				case "AUTH", "SELECT", "QUIT", "CONFIG":
					name = "TYPE"
				}
				g := &cmdspec.G{T: rt, Avoid: h.Avoid, Plain: true}
				for _, a := range g.Gen(name).Args {
					r = append(r, bp(string(a)))
				}
			case 11:
				if len(extraNames) == 0 {
					r = []*resp.Bin{bp("GET"), bp("k")}
					break
				}
				r = []*resp.Bin{bp(rapid.SampledFrom(extraNames).Draw(rt, "extra"))}
				for j, k := 0, rapid.IntRange(0, 3).Draw(rt, "nextra"); j < k; j++ {
					r = append(r, bp(rapid.SampledFrom([]string{"k", "n", "0", "1", "3", "x"}).Draw(rt, "extraarg")))
				}
			case 0:
				r = []*resp.Bin{bp("SELECT"), bp(strconv.Itoa(rapid.IntRange(0, 15).Draw(rt, "db")))}
			case 1:
				switch rapid.IntRange(0, 3).Draw(rt, "odd") {
				case 0:
					r = []*resp.Bin{bp("SELECT"), bp(strconv.Itoa(rapid.SampledFrom([]int{-1, 16, 1000, -7}).Draw(rt, "odddb")))}
				case 1:
					// another connection changes the server's password requirement at run time: existing connections keep their state
					r = []*resp.Bin{bp("CONFIG"), bp("SET"), bp("requirepass"), bp(rapid.SampledFrom([]string{"newpw", "sesame", ""}).Draw(rt, "newpw"))}
				case 2:
					r = []*resp.Bin{bp("CONFIG"), bp("SET"), bp("databases"), bp("16")}
				default:
					r = []*resp.Bin{bp("SELECT"), bp(strconv.Itoa(rapid.IntRange(0, 15).Draw(rt, "db")))}
				}
			case 2:
				r = []*resp.Bin{bp("AUTH"), bp("sesame")}
			case 3:
				r = []*resp.Bin{bp("AUTH"), bp("definitely-wrong")}
				if rapid.IntRange(0, 5).Draw(rt, "run") == 0 {
					// a long run of failures on this connection: what it does to itself must not reach the others
					for j, k := 0, rapid.IntRange(15, 40).Draw(rt, "runlen"); j < k; j++ {
						c.Steps = append(c.Steps, c08Step{Conn: who, Req: r})
					}
				}
			case 4:
				r = []*resp.Bin{bp("REMEMBER"), bp(fmt.Sprintf("t%d-%d", who, i))}
			case 5:
				switch rapid.IntRange(0, 3).Draw(rt, "userdata") {
				case 0:
					r = []*resp.Bin{bp("FORGET")}
				case 1:
					r = []*resp.Bin{bp("REMEMBERONCE"), bp(fmt.Sprintf("o%d-%d", who, i))}
				case 2:
					r = []*resp.Bin{bp("REPLACE"), bp(fmt.Sprintf("r%d-%d", who, i))}
				default:
					r = []*resp.Bin{bp("REMEMBER"), bp(fmt.Sprintf("t%d-%d", who, i))}
				}
			default:
				tpl := rapid.SampledFrom([][]string{{"GET", "k"}, {"SET", "k", "v"}, {"HGET", "h", "f"}, {"LPUSH", "l", "a"}, {"INCR", "n"}, {"MGET", "a", "b"}, {"ZCARD", "z"}}).Draw(rt, "data")
				for _, a := range tpl {
					r = append(r, bp(a))
				}
			}
			c.Steps = append(c.Steps, c08Step{Conn: who, Req: r})
		}
		h.Col.Case(nontrivial(c), []byte(fmt.Sprint(c.TLS, c.Tracer, c.SharedAddr, c.describe())), fmt.Sprintf("random-%dconn", c.Conns))
		h.Fail(rt, "c13.steps", c, evalC13(c))
	})
}
