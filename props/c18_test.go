package props

import (
	"strconv"
	"strings"
	"testing"

	exserver "github.com/cybergarage/go-redis/examples/go-redisd/server"
	"pgregory.net/rapid"

	"verif/internal/resp"
)

// ---- C18: the bundled example store returns what was stored ----

var c18Pools = map[string][]string{
	"string": {"s1", "s2", "s/3"},
	"hash":   {"h1", "h2", "h:3/x"},
	"list":   {"l1", "l2", "l 3"},
	"set":    {"t1", "t2", "t*3"},
	"zset":   {"z1", "z2", "z.3"},
}

var c18Types = []string{"string", "hash", "list", "set", "zset"}

// c18Verify appends the reads that expose the final state: KEYS *, TYPE/EXISTS per pool key and a full read of every key.
func c18Verify(p progCase) progCase {
	out := progCase{Cmds: append([][]resp.Bin{}, p.Cmds...)}
	out.Cmds = append(out.Cmds, cmd("KEYS", "*"))
	for _, typ := range c18Types {
		for _, k := range c18Pools[typ] {
			out.Cmds = append(out.Cmds, cmd("TYPE", k), cmd("EXISTS", k))
			switch typ {
			case "string":
				out.Cmds = append(out.Cmds, cmd("GET", k))
			case "hash":
				out.Cmds = append(out.Cmds, cmd("HGETALL", k))
			case "list":
				out.Cmds = append(out.Cmds, cmd("LRANGE", k, "0", "-1"))
			case "set":
				out.Cmds = append(out.Cmds, cmd("SMEMBERS", k))
			case "zset":
				out.Cmds = append(out.Cmds, cmd("ZRANGE", k, "0", "-1", "WITHSCORES"))
			}
		}
	}
	return out
}

func evalC18(p progCase) *Failure {
	srv := exserver.NewServer().Server
	return runProgram("c18", c18Verify(p), srv, nil, nil)
}

func init() { register("c18.prog", evalC18) }

// concrete command lists for the exhaustive part (reduced pools)
func c18Small(typ string) [][]string {
	switch typ {
	case "string":
		return [][]string{{"SET", "s1", "a"}, {"SET", "s1", "b\r\nc"}, {"SET", "s2", "5"}, {"SET", "s2", "007"}, {"GET", "s1"}, {"GET", "s2"}, {"SETNX", "s1", "n"}, {"GETSET", "s1", "g"}, {"APPEND", "s1", "x"}, {"INCR", "s2"}, {"INCR", "s1"},
			{"STRLEN", "s1"}, {"MSET", "s1", "m", "s2", "7"}, {"MSETNX", "s1", "q", "s2", "q"}, {"MGET", "s1", "s2"}, {"DEL", "s1"}, {"EXISTS", "s1", "s2"}, {"RENAME", "s1", "s2"}, {"RENAME", "s1", "s1"},
			{"RENAMENX", "s1", "s2"}, {"RENAMENX", "s1", "s1"}, {"GETRANGE", "s1", "0", "1"}, {"TYPE", "s1"}, {"KEYS", "s*"}}
	case "hash":
		return [][]string{{"HSET", "h1", "f1", "a"}, {"HSET", "h1", "f1", "b"}, {"HSET", "h1", "f2", "c\r\n"}, {"HSETNX", "h1", "f1", "n"}, {"HGET", "h1", "f1"}, {"HGETALL", "h1"}, {"HDEL", "h1", "f1"},
			{"HDEL", "h1", "f1", "f2"}, {"HMSET", "h1", "f1", "x", "f2", "y"}, {"HMGET", "h1", "f1", "f2", "f3"}, {"HEXISTS", "h1", "f1"}, {"HKEYS", "h1"}, {"HVALS", "h1"}, {"HLEN", "h1"}, {"HSTRLEN", "h1", "f1"},
			{"DEL", "h1"}, {"EXISTS", "h1"}, {"RENAME", "h1", "h2"}, {"RENAME", "h1", "h1"}, {"RENAMENX", "h1", "h2"}, {"TYPE", "h1"}, {"KEYS", "*"}}
	case "list":
		return [][]string{{"LPUSH", "l1", "a"}, {"LPUSH", "l1", "b", "c"}, {"RPUSH", "l1", "d"}, {"RPUSH", "l1", "e\r\n", "f"}, {"LPUSHX", "l1", "x"}, {"RPUSHX", "l1", "y"}, {"LPOP", "l1"}, {"RPOP", "l1"},
			{"LPOP", "l1", "2"}, {"RPOP", "l1", "3"}, {"LRANGE", "l1", "0", "-1"}, {"LRANGE", "l1", "1", "5"}, {"LRANGE", "l1", "-2", "-1"}, {"LINDEX", "l1", "0"}, {"LINDEX", "l1", "-1"}, {"LINDEX", "l1", "3"},
			{"LLEN", "l1"}, {"DEL", "l1"}, {"EXISTS", "l1"}, {"RENAME", "l1", "l2"}, {"RENAME", "l1", "l1"}, {"TYPE", "l1"}, {"KEYS", "l?"}}
	case "set":
		return [][]string{{"SADD", "t1", "a"}, {"SADD", "t1", "a", "b"}, {"SADD", "t1", "c\r\n", "a", "a"}, {"SREM", "t1", "a"}, {"SREM", "t1", "a", "b"}, {"SREM", "t1", "zz"}, {"SMEMBERS", "t1"}, {"SCARD", "t1"},
			{"SISMEMBER", "t1", "a"}, {"SISMEMBER", "t1", "b"}, {"DEL", "t1"}, {"EXISTS", "t1"}, {"RENAME", "t1", "t2"}, {"RENAME", "t1", "t1"}, {"RENAMENX", "t1", "t2"}, {"TYPE", "t1"}, {"KEYS", "t*"}}
	default:
		return [][]string{{"ZADD", "z1", "1", "a"}, {"ZADD", "z1", "2", "b", "3", "c"}, {"ZADD", "z1", "5", "a"}, {"ZADD", "z1", "2", "d"}, {"ZINCRBY", "z1", "2.5", "a"}, {"ZINCRBY", "z1", "-1", "b"}, {"ZSCORE", "z1", "a"},
			{"ZREM", "z1", "a"}, {"ZREM", "z1", "a", "b", "c", "d"}, {"ZCARD", "z1"}, {"ZRANGE", "z1", "0", "-1"}, {"ZRANGE", "z1", "0", "0", "WITHSCORES"}, {"ZRANGE", "z1", "0", "1", "REV"},
			{"ZRANGEBYSCORE", "z1", "(1", "3"}, {"ZRANGEBYSCORE", "z1", "-inf", "+inf", "LIMIT", "1", "2"}, {"ZRANGE", "z1", "1", "5", "BYSCORE", "LIMIT", "2", "1"}, {"ZREVRANGE", "z1", "0", "0"},
			{"ZREVRANGE", "z1", "0", "-1", "WITHSCORES"}, {"ZREVRANGEBYSCORE", "z1", "+inf", "-inf", "LIMIT", "0", "1"}, {"DEL", "z1"}, {"EXISTS", "z1"}, {"RENAME", "z1", "z2"}, {"RENAME", "z1", "z1"}, {"TYPE", "z1"}}
	}
}

func TestC18(t *testing.T) {
	h := newHarness(t, "C18", "single-client command programs against the bundled example server through a scripted connection: per data type (string, hash, list, set, sorted set) ALL programs of length <=3 over a list of ~20 concrete commands "+
		"on a reduced pool (exhaustive), plus random programs of length 1..40 over 3 keys per type (one of them with punctuation such as / : * . or a space in its name), 3 fields/members and values including the empty string and binary data with CRLF, biased to revisiting state "+
		"(re-adding members with new scores, RENAME onto an existing or the same key, pops past the end, DEL then reuse, lists of hundreds of elements pushed at once and popped by the dozen); each key is used with one data type, no expiry. After the program KEYS *, TYPE/EXISTS of every pool key and a full read of every key are appended. "+
		"Oracle: every reply equals the executable Redis model's (unordered replies as multisets, sorted-set ties permutable). Non-trivial: some key is touched >=3 times including a write after a read, or RENAME/RENAMENX/DEL hits a written key. Distinct = distinct program.")
	defer h.Finish()
	h.Probes()

	nontrivial := func(p progCase) bool {
		touch := map[string]int{}
		readSeen := map[string]bool{}
		writeAfterRead := map[string]bool{}
		written := map[string]bool{}
		nt := false
		for i := range p.Cmds {
			a := p.strs(i)
			name := strings.ToUpper(a[0])
			isWrite := false
			switch name {
			case "SET", "SETNX", "GETSET", "APPEND", "INCR", "DECR", "INCRBY", "DECRBY", "MSET", "MSETNX", "HSET", "HSETNX", "HMSET", "HDEL", "LPUSH", "RPUSH", "LPUSHX", "RPUSHX", "LPOP", "RPOP", "SADD", "SREM", "ZADD", "ZINCRBY", "ZREM":
				isWrite = true
			case "RENAME", "RENAMENX", "DEL":
				for _, k := range a[1:] {
					if written[k] {
						nt = true
					}
				}
				isWrite = true
			}
			if len(a) > 1 {
				k := a[1]
				touch[k]++
				if isWrite {
					written[k] = true
					if readSeen[k] {
						writeAfterRead[k] = true
					}
				} else {
					readSeen[k] = true
				}
				if touch[k] >= 3 && writeAfterRead[k] {
					nt = true
				}
			}
		}
		return nt
	}

	// exhaustive short programs per data type; sharded by program index
	idx := 0
	for _, typ := range c18Types {
		cmds := c18Small(typ)
		complete := true
		var rec func(prefix [][]string)
		rec = func(prefix [][]string) {
			if !complete {
				return
			}
			if len(prefix) > 0 {
				idx++
				if idx%h.NShards == h.Shard {
					p := progCase{}
					for _, c := range prefix {
						p.Cmds = append(p.Cmds, cmd(c...))
					}
					data, _ := encodeReqs(p.Cmds)
					h.Col.Case(nontrivial(p), data, "exhaustive:"+typ)
					if idx%9973 == 0 {
						var lines []string
						for i := range p.Cmds {
							lines = append(lines, reqString(p.Cmds[i]))
						}
						h.Col.Sample(map[string]any{"program": lines, "mode": "exhaustive"})
					}
					if !h.Report("c18.prog", p, evalC18(p)) {
						complete = false
						return
					}
				}
			}
			if len(prefix) == 3 {
				return
			}
			for _, c := range cmds {
				rec(append(prefix[:len(prefix):len(prefix)], c))
			}
		}
		rec(nil)
		h.Col.Exhaustive("all programs of length<=3 over the concrete command list for "+typ, complete)
	}

	// values include integers in non-canonical spellings (a store may keep integers in another representation)
	vals := []string{"", "a", "b", "x\r\ny", "\x00\xff+OK\r\n", "12", "007", "+5", "-0", "00", " 7", "9223372036854775807", "1.0", "0x10"}
	members := []string{"m1", "m2", "m3"}
	scores := []string{"1", "2", "2", "3", "-1.5", "0", "1e3", "2.5"}
	h.Rapid("programs", h.N(10000, 300000), func(rt *rapid.T) {
		pick := func(label string, pool []string) string { return rapid.SampledFrom(pool).Draw(rt, label) }
		n := rapid.IntRange(1, 40).Draw(rt, "len")
		// concentrate on one or two data types per program so that state is revisited
		focus := []string{pick("focus", c18Types)}
		if rapid.Bool().Draw(rt, "two") {
			focus = append(focus, pick("focus2", c18Types))
		}
		p := progCase{}
		for i := 0; i < n; i++ {
			typ := pick("typ", focus)
			pool := c18Pools[typ]
			k := pick("k", pool[:2+rapid.IntRange(0, 1).Draw(rt, "wide")])
			var c []string
			op := rapid.IntRange(0, 13).Draw(rt, "op")
			if op >= 10 { // generic
				switch op {
				case 10:
					c = []string{"DEL", k}
				case 11:
					c = []string{pick("ren", []string{"RENAME", "RENAME", "RENAMENX"}), k, pick("nk", pool)}
				case 12:
					c = []string{pick("gen", []string{"EXISTS", "TYPE"}), k}
				default:
					c = []string{"KEYS", pick("pat", []string{"*", "s*", "?1", "h?", "*2", "z1", "nomatch", "l*", "t?"})}
				}
			} else {
				switch typ {
				case "string":
					switch op {
					case 0:
						c = []string{"SET", k, pick("v", vals)}
					case 1:
						c = []string{"GET", k}
					case 2:
						c = []string{pick("setx", []string{"SETNX", "GETSET", "APPEND"}), k, pick("v", vals)}
					case 3:
						c = []string{pick("inc", []string{"INCR", "DECR"}), k}
					case 4:
						c = []string{pick("incby", []string{"INCRBY", "DECRBY"}), k, strconv.Itoa(rapid.IntRange(-5, 5).Draw(rt, "d"))}
					case 5:
						c = []string{pick("mset", []string{"MSET", "MSETNX"}), k, pick("v", vals), pick("k2", pool), pick("v", vals)}
					case 6:
						c = []string{"MGET", k, pick("k2", pool), "s-missing"}
					case 7:
						c = []string{"STRLEN", k}
					case 8:
						c = []string{"GETRANGE", k, strconv.Itoa(rapid.IntRange(-4, 4).Draw(rt, "s")), strconv.Itoa(rapid.IntRange(-4, 4).Draw(rt, "e"))}
					default:
						c = []string{"SET", k, strconv.Itoa(rapid.IntRange(-3, 100).Draw(rt, "n"))}
					}
				case "hash":
					f := pick("f", members)
					switch op {
					case 0, 1:
						c = []string{pick("hset", []string{"HSET", "HSET", "HSETNX"}), k, f, pick("v", vals)}
					case 2:
						c = []string{"HGET", k, f}
					case 3:
						c = []string{"HGETALL", k}
					case 4:
						c = []string{"HDEL", k, f}
					case 5:
						c = []string{"HDEL", k, f, pick("f2", members)}
					case 6:
						c = []string{"HMSET", k, f, pick("v", vals), pick("f2", members), pick("v", vals)}
					case 7:
						c = []string{"HMGET", k, f, pick("f2", members)}
					case 8:
						c = []string{pick("hq", []string{"HEXISTS", "HSTRLEN"}), k, f}
					default:
						c = []string{pick("hq1", []string{"HKEYS", "HVALS", "HLEN"}), k}
					}
				case "list":
					switch op {
					case 0:
						c = []string{pick("push", []string{"LPUSH", "RPUSH"}), k, pick("v", vals)}
					case 1:
						c = []string{pick("push", []string{"LPUSH", "RPUSH"}), k, pick("v", vals), pick("v", vals), pick("v", vals)}
					case 2:
						c = []string{pick("pushx", []string{"LPUSHX", "RPUSHX"}), k, pick("v", vals)}
					case 3:
						c = []string{pick("pop", []string{"LPOP", "RPOP"}), k}
					case 4:
						if rapid.IntRange(0, 2).Draw(rt, "bulk") == 0 {
							// a long list: hundreds of elements in one push (containers that grow and shrink)
							c = []string{pick("push", []string{"LPUSH", "RPUSH"}), k}
							for j, m := 0, rapid.SampledFrom([]int{100, 130, 257, 300, 600}).Draw(rt, "bulklen"); j < m; j++ {
								c = append(c, "e"+strconv.Itoa(j))
							}
						} else {
							c = []string{pick("pop", []string{"LPOP", "RPOP"}), k}
						}
					case 5:
						cnt := rapid.IntRange(2, 6).Draw(rt, "cnt")
						if rapid.IntRange(0, 2).Draw(rt, "bigcnt") == 0 {
							cnt = rapid.SampledFrom([]int{20, 64, 100, 200, 255, 290}).Draw(rt, "bigcntv")
						}
						c = []string{pick("pop", []string{"LPOP", "RPOP"}), k, strconv.Itoa(cnt)}
					case 6, 7:
						c = []string{"LRANGE", k, strconv.Itoa(rapid.IntRange(-6, 6).Draw(rt, "s")), strconv.Itoa(rapid.IntRange(-6, 6).Draw(rt, "e"))}
					case 8:
						c = []string{"LINDEX", k, strconv.Itoa(rapid.IntRange(-6, 6).Draw(rt, "i"))}
					default:
						c = []string{"LLEN", k}
					}
				case "set":
					switch op {
					case 0, 1:
						c = []string{"SADD", k, pick("v", vals)}
					case 2:
						c = []string{"SADD", k, pick("v", vals), pick("v", vals), pick("v", vals)}
					case 3, 4:
						c = []string{"SREM", k, pick("v", vals)}
					case 5:
						c = []string{"SREM", k, pick("v", vals), pick("v", vals)}
					case 6:
						c = []string{"SMEMBERS", k}
					case 7:
						c = []string{"SCARD", k}
					default:
						c = []string{"SISMEMBER", k, pick("v", vals)}
					}
				default:
					m := pick("m", members)
					switch op {
					case 0, 1:
						c = []string{"ZADD", k, pick("score", scores), m}
					case 2:
						c = []string{"ZADD", k, pick("score", scores), m, pick("score", scores), pick("m2", members)}
						if rapid.IntRange(0, 3).Draw(rt, "bulk") == 0 {
							// a sorted set of dozens of members in one command (containers may switch representation with size)
							c = []string{"ZADD", k}
							for j, cnt := 0, rapid.SampledFrom([]int{31, 32, 33, 40, 130}).Draw(rt, "zbulk"); j < cnt; j++ {
								c = append(c, strconv.Itoa(j%7), "b"+strconv.Itoa(j))
							}
						}
					case 3:
						c = []string{"ZINCRBY", k, pick("score", scores), m}
					case 4:
						c = []string{pick("zq", []string{"ZSCORE", "ZREM"}), k, m}
						if rapid.IntRange(0, 3).Draw(rt, "bulkmember") == 0 {
							// re-score one of the bulk members and ask for its score (before and after)
							bm := "b" + strconv.Itoa(rapid.IntRange(0, 32).Draw(rt, "bm"))
							p.Cmds = append(p.Cmds, cmd("ZSCORE", k, bm), cmd("ZADD", k, pick("score", scores), bm))
							c = []string{"ZSCORE", k, bm}
						}
					case 5:
						c = []string{"ZRANGE", k, strconv.Itoa(rapid.IntRange(-4, 4).Draw(rt, "s")), strconv.Itoa(rapid.IntRange(-4, 4).Draw(rt, "e"))}
						if rapid.Bool().Draw(rt, "rev") {
							c = append(c, "REV")
						}
						if rapid.Bool().Draw(rt, "ws") {
							c = append(c, "WITHSCORES")
						}
					case 6:
						b := func(l string) string {
							s := pick(l, append(scores, "-inf", "+inf"))
							if rapid.IntRange(0, 2).Draw(rt, l+"ex") == 0 {
								s = "(" + s
							}
							return s
						}
						c = []string{"ZRANGEBYSCORE", k, b("min"), b("max")}
						if rapid.Bool().Draw(rt, "ws") {
							c = append(c, "WITHSCORES")
						}
						if rapid.Bool().Draw(rt, "lim") {
							cnt := strconv.Itoa(rapid.IntRange(-1, 4).Draw(rt, "cnt"))
							if rapid.IntRange(0, 4).Draw(rt, "hugecnt") == 0 {
								cnt = pick("hugecntv", []string{"9223372036854775807", "9223372036854775806", "4611686018427387904", "2147483648"})
							}
							c = append(c, "LIMIT", strconv.Itoa(rapid.IntRange(0, 4).Draw(rt, "off")), cnt)
						}
					case 7:
						c = []string{"ZREVRANGE", k, strconv.Itoa(rapid.IntRange(-4, 4).Draw(rt, "s")), strconv.Itoa(rapid.IntRange(-4, 4).Draw(rt, "e"))}
						if rapid.Bool().Draw(rt, "ws") {
							c = append(c, "WITHSCORES")
						}
					case 8:
						c = []string{"ZREVRANGEBYSCORE", k, pick("max", append(scores, "+inf")), pick("min", append(scores, "-inf"))}
						if rapid.Bool().Draw(rt, "lim") {
							c = append(c, "LIMIT", strconv.Itoa(rapid.IntRange(0, 3).Draw(rt, "off")), strconv.Itoa(rapid.IntRange(-1, 3).Draw(rt, "cnt")))
						}
					default:
						c = []string{"ZCARD", k}
					}
				}
			}
			p.Cmds = append(p.Cmds, cmd(c...))
		}
		data, _ := encodeReqs(p.Cmds)
		h.Col.Case(nontrivial(p), data, "random:"+strings.Join(focus, "+"))
		if h.Col.WantSample() {
			var lines []string
			for i := range p.Cmds {
				lines = append(lines, reqString(p.Cmds[i]))
			}
			h.Col.Sample(map[string]any{"program": lines, "mode": "random"})
		}
		h.Fail(rt, "c18.prog", p, evalC18(p))
	})
}
