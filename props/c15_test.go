package props

import (
	"crypto/tls"
	"fmt"
	"io"
	"net"
	"os"
	"strings"
	"sync"
	"testing"
	"time"

	"github.com/cybergarage/go-redis/redis"
	"pgregory.net/rapid"

	"verif/internal/certs"
	"verif/internal/doubles"
	"verif/internal/resp"
	"verif/internal/sched"
)

// ---- C15: Start/Stop/Restart leave the server in the promised state ----

type c15Op struct {
	Kind         string `json:"kind"`                     // start | stop | restart
	Connect      int    `json:"connect,omitempty"`        // clients that connect (and stay idle) before the call
	Disconnect   int    `json:"disconnect,omitempty"`     // connected clients that leave before the call
	HoldLoopExit bool   `json:"hold_loop_exit,omitempty"` // park the old accept loops at their accept-error exit during the stop
	HoldAccepted bool   `json:"hold_accepted,omitempty"`  // a client is accepted but the loop is parked before registering it when Stop is called
	HoldServing  string `json:"hold_serving,omitempty"`   // a connection goroutine is parked before it starts serving; released: "" (no hold) | after-op | after-next (after the next Start) | after-clients (after the next Start and after new clients have connected) | end
	HoldLoopEnd  bool   `json:"hold_loop_end,omitempty"`  // park the old accept loops at the very end of their goroutine (after Stop has stopped waiting for them) until the next Start has returned
	HoldStopMid  bool   `json:"hold_stop_mid,omitempty"`  // park Stop between closing the listeners and sweeping the connections; a client tries to connect meanwhile
	HoldOpened   bool   `json:"hold_opened,omitempty"`    // park Start after the listeners are open; a client connects meanwhile
}

type c15Case struct {
	TLS bool    `json:"tls"` // both the plain and the TLS port are enabled
	Ops []c15Op `json:"ops"`
}

func (c c15Case) describe() string {
	var parts []string
	for _, o := range c.Ops {
		s := o.Kind
		var fl []string
		if o.Connect > 0 {
			fl = append(fl, fmt.Sprintf("connect=%d", o.Connect))
		}
		if o.Disconnect > 0 {
			fl = append(fl, fmt.Sprintf("disconnect=%d", o.Disconnect))
		}
		if o.HoldLoopExit {
			fl = append(fl, "hold-loop-exit")
		}
		if o.HoldAccepted {
			fl = append(fl, "hold-accepted")
		}
		if o.HoldLoopEnd {
			fl = append(fl, "hold-loop-end")
		}
		if o.HoldServing != "" {
			fl = append(fl, "hold-serving:"+o.HoldServing)
		}
		if o.HoldStopMid {
			fl = append(fl, "hold-stop-mid")
		}
		if o.HoldOpened {
			fl = append(fl, "hold-opened")
		}
		if len(fl) > 0 {
			s += "(" + strings.Join(fl, ",") + ")"
		}
		parts = append(parts, s)
	}
	return fmt.Sprintf("tls=%v: %s", c.TLS, strings.Join(parts, " ; "))
}

var (
	pkiOnce sync.Once
	pki     *certs.PKI
)

func sharedPKI() *certs.PKI {
	pkiOnce.Do(func() { pki = certs.New("verif-client") })
	return pki
}

// lifecycleMu serialises tests that install the global schedule-point hook.
var lifecycleMu sync.Mutex

const stepTimeout = 10 * time.Second

type c15Client struct {
	conn net.Conn
	tls  bool
}

// holdsListener reports whether this process still holds a listening socket on the port
// (/proc/self/net/tcp inode found among /proc/self/fd) - separates "we still hold it" from "someone else took it".
func holdsListener(port int) bool {
	data, err := os.ReadFile("/proc/self/net/tcp")
	if err != nil {
		return false
	}
	data6, _ := os.ReadFile("/proc/self/net/tcp6")
	want := fmt.Sprintf(":%04X", port)
	inodes := map[string]bool{}
	for _, line := range strings.Split(string(data)+string(data6), "\n") {
		f := strings.Fields(line)
		if len(f) < 10 || !strings.HasSuffix(f[1], want) || f[3] != "0A" {
			continue
		}
		inodes[f[9]] = true
	}
	if len(inodes) == 0 {
		return false
	}
	ents, _ := os.ReadDir("/proc/self/fd")
	for _, e := range ents {
		l, err := os.Readlink("/proc/self/fd/" + e.Name())
		if err == nil && strings.HasPrefix(l, "socket:[") && inodes[strings.TrimSuffix(strings.TrimPrefix(l, "socket:["), "]")] {
			return true
		}
	}
	return false
}

func evalC15(c c15Case) (fl *Failure) {
	lifecycleMu.Lock()
	defer lifecycleMu.Unlock()
	ts := sched.NewTurnstile()
	redis.VerifSetPointHook(ts.Hook)
	defer redis.VerifSetPointHook(nil)
	defer ts.ReleaseAll()

	srv := redis.NewServer()
	rec := doubles.NewRecorder()
	srv.SetCommandHandler(rec)
	port := freePort()
	srv.SetPort(port)
	ports := []int{port}
	tlsPort := 0
	if c.TLS {
		tlsPort = freePort()
		p := sharedPKI()
		srv.SetTLSPort(tlsPort)
		srv.ServerCert, srv.ServerKey, srv.CACerts = p.Server.CertPEM, p.Server.KeyPEM, p.Root.CertPEM
		ports = append(ports, tlsPort)
	}
	nloops := len(ports)
	what := c.describe()
	running := false
	defer func() {
		ts.ReleaseAll()
		if running {
			done := make(chan struct{})
			go func() { srv.Stop(); close(done) }()
			select {
			case <-done:
			case <-time.After(3 * time.Second): // a Stop that hangs has been reported already
			}
		}
	}()

	var clients []*c15Client
	dial := func(useTLS bool) (*c15Client, error) {
		if useTLS {
			p := sharedPKI()
			d := &net.Dialer{Timeout: 10 * time.Second}
			conn, err := tls.DialWithDialer(d, "tcp", fmt.Sprintf("127.0.0.1:%d", tlsPort), p.ClientConfig(p.Client("verif-client", p.Root, false)))
			if err != nil {
				return nil, err
			}
			return &c15Client{conn: conn, tls: true}, nil
		}
		conn, err := net.DialTimeout("tcp", fmt.Sprintf("127.0.0.1:%d", port), 10*time.Second)
		if err != nil {
			return nil, err
		}
		return &c15Client{conn: conn}, nil
	}
	ping := func(cl *c15Client) error {
		v, err := roundTrip(cl.conn, resp.Cmd("PING").Bytes(), 10*time.Second)
		if err != nil {
			return err
		}
		if !v.Equal(resp.S("PONG")) {
			return fmt.Errorf("PING answered %s", v)
		}
		return nil
	}
	// probeServing: a fresh client on every enabled port must be served
	probeServing := func(when string) *Failure {
		for i := range ports {
			cl, err := dial(i == 1)
			if err != nil {
				return failf("c15|not-accepting", "%s: %s: a fresh client cannot connect to port #%d: %v", what, when, i, err)
			}
			err = ping(cl)
			cl.conn.Close()
			if err != nil {
				return failf("c15|not-serving", "%s: %s: a fresh client on port #%d was not served: %v", what, when, i, err)
			}
		}
		return nil
	}
	// registryIs: the registry holds exactly n connections (polled briefly: deregistration of a closed probe is asynchronous)
	registryIs := func(n int, when string) *Failure {
		deadline := time.Now().Add(10 * time.Second)
		for {
			got := len(srv.Conns())
			if got == n {
				return nil
			}
			if time.Now().After(deadline) {
				return failf("c15|registry", "%s: %s: the registry holds %d connections, %d clients are connected", what, when, got, n)
			}
			time.Sleep(time.Millisecond)
		}
	}
	expectClosed := func(cl *c15Client, who, when string) *Failure {
		cl.conn.SetReadDeadline(time.Now().Add(6 * time.Second))
		buf := make([]byte, 16)
		n, err := cl.conn.Read(buf)
		if err == nil {
			return failf("c15|client-got-data", "%s: %s: %s received %q instead of a closed connection", what, when, who, buf[:n])
		}
		if ne, ok := err.(net.Error); ok && ne.Timeout() {
			return failf("c15|client-still-open", "%s: %s: %s is still connected (no EOF/reset within 6s)", what, when, who)
		}
		return nil
	}
	afterStop := func(when string, extra []*c15Client) *Failure {
		// synchronous promises of Stop, judged at its return with every parked goroutine still parked
		for i, p := range ports {
			// bind probe; only if it fails is /proc consulted to tell "we still hold it" from "someone else took it"
			l, err := net.Listen("tcp", fmt.Sprintf(":%d", p))
			if err != nil {
				if holdsListener(p) {
					return failf("c15|port-held", "%s: %s: the process still holds a listening socket on port #%d (%v)", what, when, i, err)
				}
				return failf("harness|bind-probe", "%s: %s: port #%d cannot be bound although this process does not hold it: %v", what, when, i, err)
			}
			l.Close()
		}
		for i, cl := range append(append([]*c15Client{}, clients...), extra...) {
			if f := expectClosed(cl, fmt.Sprintf("client %d", i), when); f != nil {
				return f
			}
			cl.conn.Close()
		}
		clients = nil
		if n := len(srv.Conns()); n != 0 {
			return failf("c15|registry-not-empty", "%s: %s: the registry still holds %d connections", what, when, n)
		}
		return nil
	}
	noGoroutines := func(when string) *Failure {
		if gs := sched.SettleNoServerGoroutines(15 * time.Second); len(gs) > 0 {
			return failf("c15|goroutine-left", "%s: %s: %d server goroutines remain after Stop:\n%s", what, when, len(gs), firstLines(gs[0], 12))
		}
		return nil
	}

	var lateEnds []*sched.Parked      // old accept loops parked at the very end of their goroutine
	var lateExits []*sched.Parked     // old accept loops still parked at their exit after Stop returned
	var servingParked []*sched.Parked // connection goroutines parked before serving, with their release timing
	var servingWhen []string
	releaseServing := func(timing string) {
		var keepP []*sched.Parked
		var keepW []string
		for i, p := range servingParked {
			if servingWhen[i] == timing {
				p.Release()
			} else {
				keepP = append(keepP, p)
				keepW = append(keepW, servingWhen[i])
			}
		}
		servingParked, servingWhen = keepP, keepW
	}

	// releaseAfterClients lets go the connection goroutines held since an earlier run, now that new clients are
	// connected, waits for them to wind down and checks that the registry still holds exactly the connected clients
	releaseAfterClients := func(when string) *Failure {
		n := 0
		for _, w := range servingWhen {
			if w == "after-clients" {
				n++
			}
		}
		if n == 0 || !running {
			return nil
		}
		before := ts.Count("conn.closed")
		releaseServing("after-clients")
		deadline := time.Now().Add(5 * time.Second)
		for ts.Count("conn.closed") < before+n && time.Now().Before(deadline) {
			time.Sleep(time.Millisecond)
		}
		return registryIs(len(clients), when+" (after late connection goroutines of an earlier run ended)")
	}

	doStart := func(o c15Op, when string) *Failure {
		if o.HoldOpened {
			ts.Arm("start.opened", 1)
		}
		errCh := make(chan error, 1)
		go func() { errCh <- srv.Start() }()
		var early *c15Client
		if o.HoldOpened {
			p, err := ts.WaitParked("start.opened", stepTimeout)
			if err != nil {
				return failf("harness|sched", "%s: %s: %v", what, when, err)
			}
			// the listeners are open: a client connecting now waits in the backlog and must be served once Start completes
			cl, derr := dial(false)
			if derr != nil {
				p.Release()
				return failf("c15|not-accepting", "%s: %s: a client connecting while Start was between opening the listeners and starting the accept loops was refused: %v", what, when, derr)
			}
			early = cl
			p.Release()
		}
		select {
		case err := <-errCh:
			if err != nil {
				if strings.Contains(err.Error(), "address already in use") {
					ours := false
					for _, p := range ports {
						ours = ours || holdsListener(p)
					}
					if !ours {
						srv.Stop()
						return failf("harness|port-taken", "%s: %s: another process took a port: %v", what, when, err)
					}
				}
				return failf("c15|start-error", "%s: %s: Start returned %v", what, when, err)
			}
		case <-time.After(stepTimeout):
			return failf("c15|start-hangs", "%s: %s: Start did not return", what, when)
		}
		running = true
		if early != nil {
			if err := ping(early); err != nil {
				return failf("c15|not-serving", "%s: %s: the client that connected during Start was not served: %v", what, when, err)
			}
			clients = append(clients, early)
		}
		return nil
	}

	doStop := func(o c15Op, when string) *Failure {
		var extra []*c15Client
		// a connection whose goroutine is parked before it serves anything
		if o.HoldServing != "" {
			ts.Arm("conn.serving", 1)
			cl, err := dial(false)
			if err != nil {
				return failf("c15|not-accepting", "%s: %s: %v", what, when, err)
			}
			p, err := ts.WaitParked("conn.serving", stepTimeout)
			if err != nil {
				return failf("harness|sched", "%s: %s: %v", what, when, err)
			}
			servingParked = append(servingParked, p)
			servingWhen = append(servingWhen, o.HoldServing)
			extra = append(extra, cl)
		}
		// a connection accepted by the loop but not yet registered
		var acceptedP *sched.Parked
		if o.HoldAccepted {
			ts.Arm("conn.accepted", 1)
			cl, err := dial(false)
			if err != nil {
				return failf("c15|not-accepting", "%s: %s: %v", what, when, err)
			}
			p, err := ts.WaitParked("conn.accepted", stepTimeout)
			if err != nil {
				return failf("harness|sched", "%s: %s: %v", what, when, err)
			}
			acceptedP = p
			extra = append(extra, cl)
		}
		if o.HoldLoopExit {
			ts.Arm("serve.accept-error", 1)
			if c.TLS {
				ts.Arm("tlsServe.accept-error", 1)
			}
		}
		if o.HoldStopMid {
			ts.Arm("stop.mid", 1)
		}
		if o.HoldLoopEnd {
			ts.Arm("serve.exit", 1)
			if c.TLS {
				ts.Arm("tlsServe.exit", 1)
			}
		}
		errCh := make(chan error, 1)
		go func() { errCh <- srv.Stop() }()
		if o.HoldStopMid {
			p, err := ts.WaitParked("stop.mid", stepTimeout)
			if err != nil {
				return failf("harness|sched", "%s: %s: %v", what, when, err)
			}
			// the listeners are closed: a client connecting now is refused, or - if it got through - is closed by the time Stop returns
			if cl, derr := dial(false); derr == nil {
				extra = append(extra, cl)
			}
			p.Release()
		}
		if acceptedP != nil {
			acceptedP.Release()
		}
		stopDone := false
		var stopErr error
		if o.HoldLoopExit {
			var exits []*sched.Parked
			for _, pt := range []string{"serve.accept-error", "tlsServe.accept-error"}[:nloops] {
				p, err := ts.WaitParked(pt, stepTimeout)
				if err != nil {
					return failf("harness|sched", "%s: %s: %v", what, when, err)
				}
				exits = append(exits, p)
			}
			// If Stop returns while the old loops are still parked at their exit (an implementation that does not
			// wait for them), they stay parked and are released only after the next Start - the schedule in which a
			// late loop exit can hit the restarted server. If Stop waits for the loops, they are released now.
			select {
			case stopErr = <-errCh:
				stopDone = true
				lateExits = append(lateExits, exits...)
			case <-time.After(60 * time.Millisecond):
				for _, p := range exits {
					p.Release()
				}
			}
		}
		if !stopDone {
			select {
			case stopErr = <-errCh:
			case <-time.After(stepTimeout):
				return failf("c15|stop-hangs", "%s: %s: Stop did not return", what, when)
			}
		}
		if stopErr != nil {
			return failf("c15|stop-error", "%s: %s: Stop returned %v", what, when, stopErr)
		}
		running = false
		if o.HoldLoopEnd {
			for _, pt := range []string{"serve.exit", "tlsServe.exit"}[:nloops] {
				p, err := ts.WaitParked(pt, stepTimeout)
				if err != nil {
					return failf("harness|sched", "%s: %s: %v", what, when, err)
				}
				lateEnds = append(lateEnds, p)
			}
		}
		if f := afterStop(when, extra); f != nil {
			return f
		}
		releaseServing("after-op")
		return nil
	}

	for i, o := range c.Ops {
		when := fmt.Sprintf("op %d (%s)", i, o.Kind)
		// client churn before the call
		if running {
			for j := 0; j < o.Disconnect && len(clients) > 0; j++ {
				clients[0].conn.Close()
				clients = clients[1:]
			}
			for j := 0; j < o.Connect; j++ {
				cl, err := dial(c.TLS && j%2 == 1)
				if err != nil {
					return failf("c15|not-accepting", "%s: before %s: %v", what, when, err)
				}
				if err := ping(cl); err != nil {
					return failf("c15|not-serving", "%s: before %s: %v", what, when, err)
				}
				clients = append(clients, cl)
			}
			if f := releaseAfterClients("before " + when); f != nil {
				return f
			}
			if f := registryIs(len(clients), "before "+when); f != nil {
				return f
			}
		}
		switch o.Kind {
		case "start":
			if f := doStart(o, when); f != nil {
				return f
			}
		case "stop":
			if f := doStop(o, when); f != nil {
				return f
			}
		case "restart":
			// Restart = Stop + Start; the holds apply to its two halves. It is driven through the public Restart
			// when no hold needs the two halves to be told apart, otherwise through Stop and Start.
			if !o.HoldAccepted && !o.HoldLoopExit && !o.HoldLoopEnd && !o.HoldStopMid && !o.HoldOpened && o.HoldServing == "" {
				old := clients
				clients = nil
				errCh := make(chan error, 1)
				go func() { errCh <- srv.Restart() }()
				select {
				case err := <-errCh:
					if err != nil {
						return failf("c15|restart-error", "%s: %s: Restart returned %v", what, when, err)
					}
				case <-time.After(stepTimeout):
					return failf("c15|restart-hangs", "%s: %s: Restart did not return", what, when)
				}
				for k, cl := range old {
					if f := expectClosed(cl, fmt.Sprintf("client %d", k), when); f != nil {
						return f
					}
					cl.conn.Close()
				}
			} else {
				if f := doStop(o, when+"/stop"); f != nil {
					return f
				}
				if f := doStart(o, when+"/start"); f != nil {
					return f
				}
			}
		}
		if running {
			releaseServing("after-next")
			if len(lateEnds) > 0 {
				// the old loops finish their goroutines only now, with the next run's listeners already open
				for _, p := range lateEnds {
					p.Release()
				}
				lateEnds = nil
				time.Sleep(15 * time.Millisecond) // scheduling aid: nothing observable marks the end of a goroutine
			}
			if len(lateExits) > 0 {
				// let the late loops run their exit path to completion before probing
				n0 := ts.Count("serve.exit") + ts.Count("tlsServe.exit")
				for _, p := range lateExits {
					p.Release()
				}
				deadline := time.Now().Add(2 * time.Second)
				for ts.Count("serve.exit")+ts.Count("tlsServe.exit") < n0+len(lateExits) && time.Now().Before(deadline) {
					time.Sleep(time.Millisecond)
				}
				lateExits = nil
			}
			if f := probeServing("after " + when); f != nil {
				return f
			}
			if f := registryIs(len(clients), "after "+when); f != nil {
				return f
			}
		} else {
			if f := noGoroutinesIfQuiet(append(append(append([]*sched.Parked{}, servingParked...), lateEnds...), lateExits...), noGoroutines, "after "+when); f != nil {
				return f
			}
		}
	}
	// wind down: release everything, stop, final checks
	for _, p := range append(lateExits, lateEnds...) {
		p.Release()
	}
	if running && len(servingParked) > 0 {
		// one more client joins before the connection goroutines held since an earlier run are let go
		if cl, err := dial(false); err == nil {
			if err := ping(cl); err != nil {
				return failf("c15|not-serving", "%s: at the end: %v", what, err)
			}
			clients = append(clients, cl)
		}
		if f := releaseAfterClients("at the end"); f != nil {
			return f
		}
	}
	releaseServing("end")
	ts.ReleaseAll()
	if running {
		if f := probeServing("at the end"); f != nil {
			return f
		}
		errCh := make(chan error, 1)
		go func() { errCh <- srv.Stop() }()
		select {
		case err := <-errCh:
			if err != nil {
				return failf("c15|stop-error", "%s: final Stop returned %v", what, err)
			}
		case <-time.After(stepTimeout):
			return failf("c15|stop-hangs", "%s: final Stop did not return", what)
		}
		running = false
		if f := afterStop("final stop", nil); f != nil {
			return f
		}
	}
	return noGoroutines("at the end")
}

// noGoroutinesIfQuiet checks for leftover goroutines only when the harness itself holds none parked.
func noGoroutinesIfQuiet(parked []*sched.Parked, check func(string) *Failure, when string) *Failure {
	if len(parked) > 0 {
		return nil
	}
	return check(when)
}

func init() { register("c15.lifecycle", evalC15) }

var _ = io.EOF

func c15Nontrivial(c c15Case) bool {
	for _, o := range c.Ops {
		if o.HoldAccepted || o.HoldLoopExit || o.HoldLoopEnd || o.HoldStopMid || o.HoldOpened || o.HoldServing != "" {
			return true
		}
	}
	return false
}

func TestC15(t *testing.T) {
	h := newHarness(t, "C15", "lifecycle sequences over {Start, Stop, Restart} (legal for a user, length <= 6) on real loopback sockets (plain port, or plain + TLS), with 0..3 clients connecting/idling/disconnecting between calls, "+
		"x schedules of the goroutines at instrumented points: old accept loops parked at their accept-error exit during Stop or at the very end of their goroutine until the next Start has returned, a connection accepted but not yet registered when Stop is called, "+
		"a connection goroutine parked before serving (released after the call / after the next Start / after the next Start once new clients have connected / at the end), "+
		"Stop parked between closing listeners and sweeping connections while a client tries to connect, Start parked after opening the listeners while a client connects. EXHAUSTIVE over all hold combinations for sequences of <= 3 calls (quick: plain port; thorough: also TLS), random beyond. "+
		"Oracle: after Start/Restart a fresh client gets +PONG on every enabled port and the registry equals the connected clients; at Stop's return the ports are released (bind probe + /proc/self/net/tcp), every client sees EOF/reset and the registry is empty; after settling no server goroutine remains. "+
		"Non-trivial: the schedule holds at least one goroutine at a point. Distinct = distinct (sequence, holds).")
	defer h.Finish()
	h.Probes()

	run := func(c c15Case, class string) bool {
		h.Col.Case(c15Nontrivial(c), []byte(c.describe()), class)
		if h.Col.WantSample() {
			h.Col.Sample(map[string]any{"case": c.describe()})
		}
		return h.Report("c15.lifecycle", c, evalC15(c))
	}

	// exhaustive: sequences of <= 3 calls, every combination of holds on each stop-like / start-like call
	seqs := [][]string{{"start"}, {"start", "stop"}, {"start", "restart"}, {"start", "stop", "start"}, {"start", "restart", "stop"}, {"start", "restart", "restart"}}
	stopVariants := func() []c15Op {
		var out []c15Op
		for mask := 0; mask < 16; mask++ {
			for _, hs := range []string{"", "after-op", "after-next", "after-clients", "end"} {
				out = append(out, c15Op{HoldLoopExit: mask&1 != 0, HoldAccepted: mask&2 != 0, HoldStopMid: mask&4 != 0, HoldLoopEnd: mask&8 != 0, HoldServing: hs})
			}
		}
		return out
	}()
	tlsModes := []bool{false}
	if h.Thorough() {
		tlsModes = []bool{false, true}
	}
	n := 0
	complete := true
exh:
	for _, useTLS := range tlsModes {
		for _, seq := range seqs {
			var rec func(i int, ops []c15Op)
			rec = func(i int, ops []c15Op) {
				if !complete {
					return
				}
				if i == len(seq) {
					n++
					if n%h.NShards != h.Shard {
						return
					}
					// quick: every 40th schedule of the three-call sequences (the single-call spaces are complete)
					if !h.Thorough() && len(seq) == 3 && (n/h.NShards)%40 != 0 {
						return
					}
					if !run(c15Case{TLS: useTLS, Ops: append([]c15Op{}, ops...)}, "exhaustive") {
						complete = false
					}
					return
				}
				switch seq[i] {
				case "start":
					for _, opened := range []bool{false, true} {
						rec(i+1, append(ops[:len(ops):len(ops)], c15Op{Kind: "start", HoldOpened: opened}))
					}
				case "stop":
					for _, v := range stopVariants {
						v.Kind = "stop"
						v.Connect = 1
						rec(i+1, append(ops[:len(ops):len(ops)], v))
					}
				case "restart":
					for _, v := range stopVariants {
						v.Kind = "restart"
						v.Connect = 1
						if i == 1 {
							rec(i+1, append(ops[:len(ops):len(ops)], v))
						} else if v.HoldServing == "" || v.HoldServing == "after-next" {
							rec(i+1, append(ops[:len(ops):len(ops)], v)) // keep the product of two restarts bounded
						}
					}
				}
			}
			rec(0, nil)
			if !complete {
				break exh
			}
		}
	}
	h.Col.Exhaustive("all hold combinations over lifecycle sequences of <=3 calls (see rule for the quick-tier thinning of two-restart sequences)", complete && h.Thorough())
	h.Col.Note("exhaustive_schedules_enumerated", n)

	// lifecycle calls mixed with run-time reconfiguration and failing Starts (second evaluator, no schedule control)
	{
		fixed := [][]string{
			{"start", "settlsport0", "restart", "stop"},
			{"start", "config-tlsport0", "restart", "stop"},
			{"start", "config-port0", "stop"},
			{"start", "setport0", "stop", "setport", "start", "stop"},
			{"occupy-tls", "start", "free-tls", "start", "stop"},
			{"drop-cert", "start", "restore-cert", "start", "stop"},
			{"occupy-tls", "start", "stop", "free-tls", "start", "restart", "stop"},
			{"start", "stop", "drop-cert", "start", "stop", "restore-cert", "start", "stop"},
			{"start", "clients=40", "stop"},
			{"start", "clients=75", "restart", "clients=33", "stop"},
			{"tracer-fails-once", "start", "start", "stop"},
			{"tracer-fails-once", "start", "stop", "start", "stop"},
			{"start", "garbage=1100", "restart", "stop"},
			{"start", "start-again", "stop"},
			{"start", "start-again", "restart", "start-again", "stop", "start", "stop"},
			{"start", "settlsport0", "start-again", "stop"},
		}
		for i, ops := range fixed {
			if i%h.NShards != h.Shard {
				continue
			}
			c := c15Cfg{Ops: ops}
			h.Col.Case(true, []byte(fmt.Sprint("cfg", ops)), "reconfiguration-and-failed-start")
			h.Report("c15.config", c, evalC15Cfg(c))
		}
		if h.Shard == 0 {
			for _, u := range []c19Unread{{Cmd: []string{"PING"}}, {Cmd: []string{"GET", "k"}, Before: 2}} {
				h.Col.Case(true, []byte(fmt.Sprint("unread", u)), "reply-unread-at-stop")
				h.Report("c15.unread", u, evalC15Unread(u))
			}
			for _, call := range []string{"stop", "restart"} {
				c := c19Shutdown{Call: call, Bystanders: 2, Before: 1}
				h.Col.Case(true, []byte(fmt.Sprint("shutdown", c)), "lifecycle-call-from-inside-a-command")
				h.Report("c15.shutdown", c, evalC15Shutdown(c))
			}
		}
		h.Rapid("config", h.N(40, 2000)/h.NShards+1, func(rt *rapid.T) {
			var ops []string
			for i, n := 0, rapid.IntRange(2, 9).Draw(rt, "nops"); i < n; i++ {
				ops = append(ops, rapid.SampledFrom([]string{"start", "start", "stop", "restart", "restart", "setport0", "setport", "settlsport0", "settlsport", "config-port0", "config-tlsport0",
					"occupy-tls", "free-tls", "drop-cert", "restore-cert", "tracer-fails-once", "clients=40", "clients=33", "start-again"}).Draw(rt, "op"))
			}
			c := c15Cfg{Ops: ops}
			h.Col.Case(true, []byte(fmt.Sprint("cfg", ops)), "reconfiguration-and-failed-start")
			h.Fail(rt, "c15.config", c, evalC15Cfg(c))
		})
	}

	nrand := h.N(120, 4000) / h.NShards
	if nrand < 5 {
		nrand = 5
	}
	h.Rapid("random", nrand, func(rt *rapid.T) {
		c := c15Case{TLS: rapid.IntRange(0, 2).Draw(rt, "tls") == 0}
		nops := rapid.IntRange(1, 6).Draw(rt, "nops")
		running := false
		for i := 0; i < nops; i++ {
			var o c15Op
			if !running {
				o = c15Op{Kind: "start", HoldOpened: rapid.Bool().Draw(rt, "opened")}
				running = true
			} else {
				o.Kind = rapid.SampledFrom([]string{"stop", "restart", "restart"}).Draw(rt, "kind")
				o.Connect = rapid.IntRange(0, 3).Draw(rt, "connect")
				o.Disconnect = rapid.IntRange(0, 2).Draw(rt, "disconnect")
				o.HoldLoopExit = rapid.Bool().Draw(rt, "loopexit")
				o.HoldAccepted = rapid.Bool().Draw(rt, "accepted")
				o.HoldStopMid = rapid.Bool().Draw(rt, "stopmid")
				o.HoldServing = rapid.SampledFrom([]string{"", "", "after-op", "after-next", "after-clients", "end"}).Draw(rt, "serving")
				o.HoldLoopEnd = rapid.Bool().Draw(rt, "loopend")
				if o.Kind == "restart" {
					o.HoldOpened = rapid.Bool().Draw(rt, "opened")
				} else {
					running = false
				}
			}
			c.Ops = append(c.Ops, o)
		}
		h.Col.Case(c15Nontrivial(c), []byte(c.describe()), "random")
		h.Fail(rt, "c15.lifecycle", c, evalC15(c))
	})
}
