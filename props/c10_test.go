package props

import (
	"fmt"
	"strings"
	"testing"

	"pgregory.net/rapid"

	"verif/internal/cmdspec"
	"verif/internal/connsim"
	"verif/internal/resp"
)

// ---- C10: ill-formed arguments are rejected without side effects ----

type c10Case struct {
	Name string      `json:"name"`
	Kind string      `json:"kind"`
	Pos  int         `json:"pos"`
	Args []*resp.Bin `json:"args"` // null entry = null bulk
	// Password: the server requires a password and the connection has authenticated before the ill-formed request
	Password bool `json:"password,omitempty"`
}

func (c c10Case) value() resp.Value {
	v := resp.Value{Kind: resp.Array}
	for _, a := range c.Args {
		if a == nil {
			v.Elems = append(v.Elems, resp.Nil())
		} else {
			v.Elems = append(v.Elems, resp.BB(*a))
		}
	}
	return v
}

func (c c10Case) String() string {
	var parts []string
	for _, a := range c.Args {
		if a == nil {
			parts = append(parts, "<null>")
		} else {
			parts = append(parts, fmt.Sprintf("%q", string(*a)))
		}
	}
	return strings.Join(parts, " ")
}

func evalC10(c c10Case) *Failure {
	srv, rec := newRecServer()
	var data []byte
	ill := 0 // index of the ill-formed request in the stream
	if c.Password {
		srv.SetPort(0)
		srv.SetRequirePass("sesame")
		if err := srv.Start(); err != nil {
			return failf("harness|start", "%v", err)
		}
		defer srv.Stop()
		data = resp.Cmd("AUTH", "sesame").Bytes()
		ill = 1
	} else {
		srv.SetAuthCommandHandler(rec)
	}
	data = c.value().Encode(data)
	data = resp.Cmd("GET", "probe").Encode(data)
	conn := connsim.NewPreloaded(1, [][]byte{data})
	o := connsim.Serve(srv, conn, serveTimeout())
	what := fmt.Sprintf("%s [%s at %d]", c, c.Kind, c.Pos)
	if c.Password {
		what += " on an authenticated connection of a password-protected server"
	}
	tag := c.Name + "|" + strings.SplitN(c.Kind, ":", 2)[0]
	if o.TimedOut {
		return stallFailure("c10|"+c.Name, what)
	}
	if o.Panic != nil {
		return failf("c10|panic|"+panicKey(o)+"|"+c.Name, "%s: panic: %v", what, o.Panic)
	}
	frames, _, err := conn.Frames()
	if err != nil || len(frames) != 2+ill {
		return failf("c10|frames|"+tag, "%s: %d reply frames for %d requests (%v): %q", what, len(frames), 2+ill, err, clip(conn.Out()))
	}
	frames = frames[ill:]
	calls := rec.Snapshot()
	var first []string
	for _, cl := range calls {
		if cl.Frames == ill {
			first = append(first, callStr(cl))
		}
	}
	if len(first) > 0 {
		return failf("c10|executed|"+tag, "%s: the handler was invoked for the ill-formed request: %v (reply %s)", what, first, frames[0])
	}
	if !frames[0].IsError() {
		return failf("c10|not-rejected|"+tag, "%s: answered with %s, want an error reply", what, frames[0])
	}
	if len(calls) != 1 || calls[0].Method != "Get" || calls[0].Args[0] != "probe" || calls[0].Ret == nil || !frames[1].Equal(*calls[0].Ret) {
		return failf("c10|next-request|"+tag, "%s: the following GET was not processed normally: reply %s, calls %d", what, frames[1], len(calls))
	}
	return nil
}

func illToCase(i cmdspec.Ill) c10Case {
	c := c10Case{Name: i.Name, Kind: i.Kind, Pos: i.Pos}
	for _, a := range i.Args {
		if a == nil {
			c.Args = append(c.Args, nil)
		} else {
			b := resp.Bin(a)
			c.Args = append(c.Args, &b)
		}
	}
	return c
}

func init() { register("c10.ill", evalC10) }

func TestC10(t *testing.T) {
	h := newHarness(t, "C10", "the complete table of ill-formed shapes over the positional schema of every command with required arguments: each required position (and what follows) omitted, "+
		"a null bulk at each position, each numeric position replaced by abc / 1.5 / empty / 20-digit / 2^63 / 19-digit-overflowing / -2^63-1 tokens (floats: abc, empty, 1.5.2, --1; bounds: abc, empty, '(', '(abc'), non-positive expiries, "+
		"pair lists with a dangling half, SET with combined/repeated NX|XX and EX|PX|EXAT|PXAT; each followed by a probe GET; plus random letter case and random corruption positions in longer vectors. "+
		"Oracle: reply 1 is an error, no handler call is attributed to request 1, the probe is answered normally. Every case is non-trivial; distinct = distinct request bytes.")
	defer h.Finish()
	h.Probes()

	table := cmdspec.IllFormed()
	if h.Shard == 0 {
		stop := false
		for _, ill := range table {
			c := illToCase(ill)
			h.Col.Case(true, c.value().Bytes(), "cmd:"+ill.Name, "kind:"+strings.SplitN(ill.Kind, ":", 2)[0])
			if h.Col.WantSample() {
				h.Col.Sample(map[string]any{"request": c.String(), "kind": c.Kind, "pos": c.Pos})
			}
			if !stop && !h.Report("c10.ill", c, evalC10(c)) {
				stop = true
			}
			// the same on an authenticated connection of a password-protected server (the connection keeps its authorization)
			cp := c
			cp.Password = true
			h.Col.Case(true, append([]byte("pw\x00"), c.value().Bytes()...), "cmd:"+ill.Name, "password-protected")
			if !stop && !h.Report("c10.ill", cp, evalC10(cp)) {
				stop = true
			}
		}
		h.Col.Exhaustive("table of ill-formed shapes (cmdspec.IllFormed)", !stop)
		h.Col.Note("table_size", len(table))
	}

	// random: table entries with random letter case for command/option names, and longer tails before the corruption
	h.Rapid("random", h.N(10000, 600000), func(rt *rapid.T) {
		ill := table[rapid.IntRange(0, len(table)-1).Draw(rt, "entry")]
		c := illToCase(ill)
		g := &cmdspec.G{T: rt}
		name := resp.Bin(g.Casing(string(*c.Args[0])))
		c.Args[0] = &name
		for i := 1; i < len(c.Args); i++ {
			if c.Args[i] == nil {
				continue
			}
			switch strings.ToUpper(string(*c.Args[i])) {
			case "NX", "XX", "EX", "PX", "EXAT", "PXAT", "LIMIT", "COUNT", "MATCH", "BYSCORE", "SET", "GET":
				if i >= 2 || c.Name == "CONFIG SET" || c.Name == "CONFIG GET" {
					x := resp.Bin(g.Casing(string(*c.Args[i])))
					c.Args[i] = &x
				}
			case "IK":
				x := resp.Bin(g.Key())
				c.Args[i] = &x
			case "IV":
				x := resp.Bin(g.Str())
				// a value position must not turn into something that changes the shape (it cannot: values are opaque)
				c.Args[i] = &x
			}
		}
		c.Password = rapid.IntRange(0, 3).Draw(rt, "pw") == 0
		h.Col.Case(true, append([]byte{boolByte(c.Password)}, c.value().Bytes()...), "random", "cmd:"+ill.Name)
		h.Fail(rt, "c10.ill", c, evalC10(c))
	})
}
