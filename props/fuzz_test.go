package props

import (
	"crypto/sha256"
	"encoding/hex"
	"encoding/json"
	"fmt"
	"os"
	"path/filepath"
	"sync"
	"testing"

	"pgregory.net/rapid"

	"verif/internal/resp"
)

// Native coverage-guided fuzz targets (thorough tier only). Each target puts the
// same oracle as the rapid property inside the target; a failing input is written
// as a replay file in the harness's own format and reported with a VIOLATION line.

var fuzzFindings sync.Map // prop -> []*Finding

func fuzzFail(tb interface{ Fatalf(string, ...any) }, prop, kind string, c any, f *Failure) {
	if f == nil {
		return
	}
	v, ok := fuzzFindings.Load(prop)
	if !ok {
		v, _ = fuzzFindings.LoadOrStore(prop, loadFindings(prop))
	}
	for _, kf := range v.([]*Finding) {
		if kf.Status == "open" && keyMatches(kf.Key, f.Key) {
			return
		}
	}
	raw, _ := json.Marshal(c)
	r := Replay{Property: prop, Kind: kind, Key: f.Key, Detail: f.Detail, Case: raw}
	b, _ := json.MarshalIndent(r, "", " ")
	sum := sha256.Sum256(append([]byte(kind+"|"), raw...))
	dir := filepath.Join(verifRoot(), "replays", "run", prop)
	os.MkdirAll(dir, 0o755)
	path := filepath.Join(dir, "fuzz-"+hex.EncodeToString(sum[:8])+".json")
	os.WriteFile(path, b, 0o644)
	tb.Fatalf("\nVIOLATION property=%s replay=%s\n  key: %s\n  detail: %s\n", prop, path, f.Key, f.Detail)
}

func FuzzC01(f *testing.F) {
	f.Add([]byte{})
	f.Add([]byte("*2\r\n$1\r\na\r\n$-1\r\n"))
	f.Fuzz(rapid.MakeFuzz(func(rt *rapid.T) {
		if rapid.Bool().Draw(rt, "tree") {
			c := c01Tree{V: resp.GenValue(resp.GenOpts{MaxBulk: 4200, MaxArity: 6, MaxDepth: 4}).Draw(rt, "v")}
			fuzzFail(rt, "C01", "c01.tree", c, evalC01Tree(c))
			return
		}
		c := c01Ctor{Ctor: rapid.SampledFrom([]string{"string", "error", "integer", "float", "bulk", "strings"}).Draw(rt, "ctor")}
		switch c.Ctor {
		case "string", "error":
			c.S = resp.GenLinePayload().Draw(rt, "text")
		case "integer":
			c.I = resp.GenInt64().Draw(rt, "i")
		case "float":
			c.F = genFiniteFloatBits().Draw(rt, "f")
		case "bulk":
			c.S = resp.GenBulkPayload(4200).Draw(rt, "s")
		case "strings":
			n := rapid.IntRange(0, 6).Draw(rt, "n")
			for i := 0; i < n; i++ {
				c.Strs = append(c.Strs, resp.GenBulkPayload(64).Draw(rt, "se"))
			}
		}
		fuzzFail(rt, "C01", "c01.ctor", c, evalC01Ctor(c))
	}))
}

func FuzzC02(f *testing.F) {
	f.Add([]byte{})
	f.Fuzz(rapid.MakeFuzz(func(rt *rapid.T) {
		n := rapid.IntRange(1, 6).Draw(rt, "n")
		c := c02Case{}
		for i := 0; i < n; i++ {
			c.Values = append(c.Values, resp.GenValue(resp.GenOpts{MaxBulk: 300, MaxArity: 4, MaxDepth: 3}).Draw(rt, "v"))
		}
		data, _ := resp.EncodeAll(c.Values)
		if len(data) < 2 {
			return
		}
		k := rapid.IntRange(0, 12).Draw(rt, "k")
		for i := 0; i < k; i++ {
			c.Sizes = append(c.Sizes, rapid.IntRange(1, len(data)).Draw(rt, "size"))
		}
		fuzzFail(rt, "C02", "c02.stream", c, evalC02(c))
	}))
}

func FuzzC06(f *testing.F) {
	for _, c := range c06Bombs() {
		if b := c.bytes(); len(b) < 4096 && !hazardous(b) {
			f.Add(b)
		}
	}
	f.Add([]byte("*2\r\n$3\r\nGET\r\n$1\r\nk\r\n"))
	f.Add([]byte("+OK\r\n-ERR\r\n:1\r\n$-1\r\n*0\r\n"))
	f.Fuzz(func(t *testing.T, data []byte) {
		if len(data) > 1<<20 || hazardous(data) {
			t.Skip()
		}
		c := c06Case{Input: data}
		fuzzFail(t, "C06", "c06.input", c, evalC06(c))
	})
}

var _ = fmt.Sprint

func FuzzC04(f *testing.F) {
	f.Add([]byte{})
	f.Fuzz(rapid.MakeFuzz(func(rt *rapid.T) {
		c, _ := genC04Case(rt, nil)
		fuzzFail(rt, "C04", "c04.stream", c, evalC04(c))
	}))
}
