package props

import (
	"bytes"
	"fmt"
	"sort"
	"strconv"
	"strings"
	"testing"
	"unicode/utf8"

	exserver "github.com/cybergarage/go-redis/examples/go-redisd/server"
	"github.com/cybergarage/go-redis/redis/glob"
	"pgregory.net/rapid"

	"verif/internal/connsim"
	"verif/internal/evid"
	"verif/internal/model"
	"verif/internal/resp"
)

// ---- C17: key patterns match as Redis globs ----

type c17Pair struct {
	Pattern string `json:"pattern"`
	Key     string `json:"key"`
}

func evalC17Pair(c c17Pair) (fl *Failure) {
	defer func() {
		if r := recover(); r != nil {
			fl = failf("c17|panic", "glob.Compile(%q) / MatchString(%q) panicked: %v", c.Pattern, c.Key, r)
		}
	}()
	g, err := glob.Compile(c.Pattern)
	if err != nil {
		return failf("c17|compile", "glob.Compile(%q) failed: %v", c.Pattern, err)
	}
	want := model.GlobMatch(c.Pattern, c.Key)
	if got := g.MatchString(c.Key); got != want {
		return failf("c17|match", "glob %q on key %q: MatchString = %v, glob semantics say %v", c.Pattern, c.Key, got, want)
	}
	return nil
}

// c17Binary: patterns and keys that are arbitrary byte strings (not valid UTF-8): compiling never fails or panics;
// the match result is compared only when both are valid UTF-8.
type c17Binary struct {
	Pattern resp.Bin `json:"pattern"`
	Key     resp.Bin `json:"key"`
}

func evalC17Binary(c c17Binary) (fl *Failure) {
	defer func() {
		if r := recover(); r != nil {
			fl = failf("c17|panic", "glob.Compile / MustCompile(%q) / MatchString(%q) panicked: %v", []byte(c.Pattern), []byte(c.Key), r)
		}
	}()
	g, err := glob.Compile(string(c.Pattern))
	if err != nil {
		return failf("c17|compile", "glob.Compile(%q) failed: %v", []byte(c.Pattern), err)
	}
	got := g.MatchString(string(c.Key))
	glob.MustCompile(string(c.Pattern)).MatchString(string(c.Key))
	if utf8.Valid(c.Pattern) && utf8.Valid(c.Key) && !bytes.ContainsAny(c.Pattern, "\\[]") {
		if want := model.GlobMatch(string(c.Pattern), string(c.Key)); got != want {
			return failf("c17|match", "glob %q on key %q: MatchString = %v, glob semantics say %v", []byte(c.Pattern), []byte(c.Key), got, want)
		}
	}
	return nil
}

type c17Server struct {
	Keys    []string `json:"keys"`
	Pattern string   `json:"pattern"`
	Filler  int      `json:"filler,omitempty"` // additional keys f0, f1, ... (large key spaces)
}

func evalC17Server(c c17Server) *Failure {
	srv := exserver.NewServer().Server
	p := progCase{}
	uniq := map[string]bool{}
	for _, k := range c.Keys {
		uniq[k] = true
		p.Cmds = append(p.Cmds, cmd("SET", k, "v"))
	}
	for i := 0; i < c.Filler; i++ {
		k := "f" + strconv.Itoa(i)
		uniq[k] = true
		p.Cmds = append(p.Cmds, cmd("SET", k, "v"))
	}
	p.Cmds = append(p.Cmds, cmd("KEYS", c.Pattern), cmd("SCAN", "0", "MATCH", c.Pattern, "COUNT", strconv.Itoa(len(uniq)+1)))
	data, _ := encodeReqs(p.Cmds)
	conn := connsim.NewPreloaded(1, [][]byte{data})
	o := connsim.Serve(srv, conn, serveTimeout())
	what := fmt.Sprintf("keys %q pattern %q", c.Keys, c.Pattern)
	if c.Filler > 0 {
		what += fmt.Sprintf(" and keys f0..f%d", c.Filler-1)
	}
	if o.TimedOut {
		return stallFailure("c17", what)
	}
	if o.Panic != nil {
		return failf("c17|server-panic|"+panicKey(o), "%s: panic: %v", what, o.Panic)
	}
	frames, _, err := conn.Frames()
	if err != nil || len(frames) != len(p.Cmds) {
		return failf("c17|frames", "%s: %d replies for %d commands (%v)", what, len(frames), len(p.Cmds), err)
	}
	var want []string
	for k := range uniq {
		if model.GlobMatch(c.Pattern, k) {
			want = append(want, k)
		}
	}
	sort.Strings(want)
	flat := func(v resp.Value) ([]string, bool) {
		if v.Kind != resp.Array {
			return nil, false
		}
		var out []string
		for _, e := range v.Elems {
			s, ok := e.Str()
			if !ok {
				return nil, false
			}
			out = append(out, s)
		}
		sort.Strings(out)
		return out, true
	}
	keysReply := frames[len(frames)-2]
	got, ok := flat(keysReply)
	if !ok || fmt.Sprint(got) != fmt.Sprint(want) {
		if len(want) > 20 {
			return failf("c17|keys", "%s: KEYS returned %d keys, the pattern selects %d; missing %q", what, len(got), len(want), clip([]byte(fmt.Sprint(diffStrings(want, got)))))
		}
		return failf("c17|keys", "%s: KEYS returned %s, the pattern selects %q", what, keysReply, want)
	}
	scanReply := frames[len(frames)-1]
	if scanReply.Kind != resp.Array || len(scanReply.Elems) != 2 {
		return failf("c17|scan-shape", "%s: SCAN reply %s", what, scanReply)
	}
	sgot, ok := flat(scanReply.Elems[1])
	if !ok || fmt.Sprint(sgot) != fmt.Sprint(got) {
		if len(got) > 20 {
			return failf("c17|scan-vs-keys", "%s: SCAN MATCH returned %d keys, KEYS returned %d", what, len(sgot), len(got))
		}
		return failf("c17|scan-vs-keys", "%s: SCAN MATCH returned %s, KEYS returned %q", what, scanReply.Elems[1], got)
	}
	return nil
}

func diffStrings(a, b []string) []string {
	in := map[string]bool{}
	for _, x := range b {
		in[x] = true
	}
	var out []string
	for _, x := range a {
		if !in[x] {
			out = append(out, x)
		}
	}
	return out
}

func init() {
	register("c17.pair", evalC17Pair)
	register("c17.server", evalC17Server)
	register("c17.binary", evalC17Binary)
}

var c17Alpha = []byte{'a', 'b', '*', '?', '.', '+', '(', '|', '$'}

func allStrings(alpha []byte, maxLen int) []string {
	out := []string{""}
	prev := []string{""}
	for l := 1; l <= maxLen; l++ {
		var cur []string
		for _, p := range prev {
			for _, c := range alpha {
				cur = append(cur, p+string(c))
			}
		}
		out = append(out, cur...)
		prev = cur
	}
	return out
}

func TestC17(t *testing.T) {
	h := newHarness(t, "C17", "COMPLETE enumeration of patterns x keys over the alphabet {a,b,*,?,.,+,(,|,$}: quick = patterns up to length 3 x keys up to length 4, thorough = up to 5 x 5 (sharded by pattern); "+
		"random longer patterns/keys over that alphabet plus ) ^ { } space newline and non-ASCII letters; and at server level a populated example store where KEYS p must return exactly the reference-selected keys and SCAN 0 MATCH p COUNT n+1 the same set, also with 100..4099 additional keys (around 1024 and 2048). "+
		"Oracle: a direct recursive glob matcher ('*' any sequence, '?' one character, everything else literal). [ ] and \\ are not generated (Redis gives them a meaning the property does not mention). Patterns and keys that are not valid UTF-8 (lone high bytes, characters cut short, control bytes): compiling must neither fail nor panic (the match result is not compared for them). "+
		"Non-trivial: the pattern contains a regular-expression metacharacter, or the key does and the pattern has a wildcard. Distinct = distinct (pattern, key).")
	defer h.Finish()
	h.Probes()

	pl, kl := 3, 4
	if h.Thorough() {
		pl, kl = 5, 5
	}
	patterns := allStrings(c17Alpha, pl)
	keys := allStrings(c17Alpha, kl)
	meta := func(s string) bool { return strings.ContainsAny(s, ".+(|$)^{}") }
	wild := func(s string) bool { return strings.ContainsAny(s, "*?") }
	complete := true
	var evals, nontriv int64
	var hsum uint64
	samples := 0
enum:
	for pi, p := range patterns {
		if pi%h.NShards != h.Shard {
			continue
		}
		g, err := glob.Compile(p)
		if err != nil {
			c := c17Pair{Pattern: p, Key: ""}
			if !h.Report("c17.pair", c, evalC17Pair(c)) {
				complete = false
				break enum
			}
			continue
		}
		pm := meta(p)
		pw := wild(p)
		for _, k := range keys {
			evals++
			if pm || (pw && meta(k)) {
				nontriv++
			}
			if g.MatchString(k) != model.GlobMatch(p, k) {
				c := c17Pair{Pattern: p, Key: k}
				if !h.Report("c17.pair", c, evalC17Pair(c)) {
					complete = false
					break enum
				}
				break // one failing key per pattern is enough
			}
		}
		if samples < 8 && pi%97 == 3 {
			samples++
			h.Col.Sample(map[string]any{"pattern": p, "keys_checked": len(keys), "example_key": keys[(pi*131)%len(keys)]})
		}
		hsum ^= evid.Hash([]byte(p))
	}
	// the enumeration is a product space: every (pattern,key) pair is distinct by construction, so the
	// distinct non-trivial count is the counted number of non-trivial pairs (hashing 10^9 pairs is pointless)
	h.Col.AddEnumerated(evals, nontriv)
	h.Col.Class("enumerated-pairs", evals)
	h.Col.Note("enumerated_pairs", evals)
	h.Col.Note("enumerated_nontrivial_pairs", nontriv)
	h.Col.Exhaustive(fmt.Sprintf("patterns up to length %d x keys up to length %d over {a,b,*,?,.,+,(,|,$}", pl, kl), complete)
	_ = hsum

	extra := []string{"a", "b", "*", "?", ".", "+", "(", "|", "$", ")", "^", "{", "}", " ", "\n", "é", "ß", "日", "k", ":", "1", "/", "-", "#"}
	genStr := func(rt *rapid.T, label string, max int, noWild bool) string {
		n := rapid.IntRange(0, max).Draw(rt, label+"len")
		var sb strings.Builder
		for i := 0; i < n; i++ {
			c := rapid.SampledFrom(extra).Draw(rt, label)
			if noWild && (c == "*" || c == "?") && rapid.Bool().Draw(rt, label+"lit") {
				c = "x"
			}
			sb.WriteString(c)
		}
		return sb.String()
	}
	h.Rapid("random-pairs", h.N(30000, 300000), func(rt *rapid.T) {
		c := c17Pair{Pattern: genStr(rt, "p", 10, false), Key: genStr(rt, "k", 12, true)}
		if rapid.IntRange(0, 2).Draw(rt, "derive") == 0 {
			// derive the key from the pattern so that matches are frequent
			var sb strings.Builder
			for _, r := range c.Pattern {
				switch r {
				case '*':
					sb.WriteString(genStr(rt, "fill", 3, true))
				case '?':
					sb.WriteString(rapid.SampledFrom(extra).Draw(rt, "one"))
				default:
					sb.WriteRune(r)
				}
			}
			c.Key = sb.String()
		}
		h.Col.Case(meta(c.Pattern) || (wild(c.Pattern) && meta(c.Key)), []byte(c.Pattern+"\x00"+c.Key), "random-pair")
		if h.Col.WantSample() {
			h.Col.Sample(c)
		}
		h.Fail(rt, "c17.pair", c, evalC17Pair(c))
	})

	h.Rapid("binary-pairs", h.N(20000, 200000), func(rt *rapid.T) {
		piece := func(label string) []byte {
			switch rapid.IntRange(0, 5).Draw(rt, label+"cls") {
			case 0:
				return []byte{byte(rapid.IntRange(0x80, 0xff).Draw(rt, label+"hi"))} // a lone byte >= 0x80 is not valid UTF-8
			case 1:
				return []byte("\xe6\x97")[:rapid.IntRange(1, 2).Draw(rt, label+"cut")] // a multi-byte character cut short
			case 2:
				return []byte{byte(rapid.IntRange(0, 0x1f).Draw(rt, label+"ctl"))}
			case 3:
				// characters with a meaning in regular expressions beyond the enumerated alphabet: escapes and classes
				return []byte(rapid.SampledFrom([]string{"\\", "\\E", "\\Q", "\\d", "\\b", "\\1", "\\x41", "[", "]", "[a-", "(?i)", "(?", "{2}", "\\"}).Draw(rt, label+"re"))
			default:
				return []byte(rapid.SampledFrom(extra).Draw(rt, label))
			}
		}
		var c c17Binary
		for i, n := 0, rapid.IntRange(1, 6).Draw(rt, "plen"); i < n; i++ {
			c.Pattern = append(c.Pattern, piece("p")...)
		}
		for i, n := 0, rapid.IntRange(0, 6).Draw(rt, "klen"); i < n; i++ {
			c.Key = append(c.Key, piece("k")...)
		}
		h.Col.Case(!utf8.Valid(c.Pattern) || !utf8.Valid(c.Key), append(append([]byte("bin\x00"), c.Pattern...), append([]byte{0}, c.Key...)...), "binary-pair")
		h.Fail(rt, "c17.binary", c, evalC17Binary(c))
	})

	h.Rapid("server", h.N(3000, 30000), func(rt *rapid.T) {
		c := c17Server{Pattern: genStr(rt, "p", 6, false)}
		n := rapid.IntRange(0, 8).Draw(rt, "nkeys")
		for i := 0; i < n; i++ {
			c.Keys = append(c.Keys, genStr(rt, "k", 6, true))
		}
		if rapid.Bool().Draw(rt, "addmatch") {
			c.Keys = append(c.Keys, strings.NewReplacer("*", "zz", "?", "q").Replace(c.Pattern))
		}
		for i, k := 0, rapid.IntRange(0, 3).Draw(rt, "nderived"); i < k; i++ {
			// keys derived from the pattern, with literal wildcard characters where the pattern has its wildcards
			var sb strings.Builder
			for _, r := range c.Pattern {
				switch r {
				case '*':
					sb.WriteString(rapid.SampledFrom([]string{"", "*", "*b", "a*", "**", "?", "zz"}).Draw(rt, "starfill"))
				case '?':
					sb.WriteString(rapid.SampledFrom([]string{"q", "*", "?", ".", "é", "日", "ß"}).Draw(rt, "onefill"))
				default:
					sb.WriteRune(r)
				}
			}
			c.Keys = append(c.Keys, sb.String())
		}
		h.Col.Case(meta(c.Pattern) || wild(c.Pattern), []byte(fmt.Sprint(c.Keys, c.Pattern)), "server-keys-vs-scan")
		if h.Col.WantSample() {
			h.Col.Sample(c)
		}
		h.Fail(rt, "c17.server", c, evalC17Server(c))
	})

	// server level, complete: every pattern up to length 3 over {a,b,*,?} against a store that holds every key
	// up to length 2 over {a,b,*,?} (the keys contain literal wildcard characters)
	{
		keys := allStrings([]byte{'a', 'b', '*', '?'}, 2)[1:]
		pats := allStrings([]byte{'a', 'b', '*', '?'}, 3)
		complete := true
		for i, pat := range pats {
			if i%h.NShards != h.Shard {
				continue
			}
			c := c17Server{Pattern: pat, Keys: keys}
			h.Col.Case(wild(pat), []byte("srvex\x00"+pat), "server-exhaustive")
			if !h.Report("c17.server", c, evalC17Server(c)) {
				complete = false
				break
			}
		}
		h.Col.Exhaustive("server level: patterns up to length 3 over {a,b,*,?} x a store holding all 20 keys up to length 2 over the same alphabet", complete)
	}
	// the same with a multi-byte character in the alphabet ('?' is one character, not one byte)
	{
		var keys, pats []string
		for _, k := range allStrings([]byte{'a', 'E', '*', '?'}, 2)[1:] {
			keys = append(keys, strings.ReplaceAll(k, "E", "é"))
		}
		for _, p := range allStrings([]byte{'a', 'E', '*', '?'}, 3) {
			pats = append(pats, strings.ReplaceAll(p, "E", "é"))
		}
		complete := true
		for i, pat := range pats {
			if i%h.NShards != h.Shard {
				continue
			}
			c := c17Server{Pattern: pat, Keys: keys}
			h.Col.Case(wild(pat), []byte("srvex2\x00"+pat), "server-exhaustive")
			if !h.Report("c17.server", c, evalC17Server(c)) {
				complete = false
				break
			}
		}
		h.Col.Exhaustive("server level: patterns up to length 3 over {a,é,*,?} x a store holding all 20 keys up to length 2 over the same alphabet", complete)
	}

	// patterns that spell the option names of SCAN
	if h.Shard == 0 {
		for _, pat := range []string{"match", "MATCH", "count", "COUNT", "Match", "coun?", "type", "0", "100"} {
			c := c17Server{Pattern: pat, Keys: []string{"match", "MATCH", "count", "COUNT", "100", "0", "other"}}
			h.Col.Case(true, []byte("optname "+pat), "server-option-name-pattern")
			h.Report("c17.server", c, evalC17Server(c))
		}
	}

	// very long patterns: KEYS and SCAN MATCH still agree
	if h.Shard == 0 {
		for _, n := range []int{65536, 65537, 70000, 200000} {
			c := c17Server{Pattern: strings.Repeat("a", n) + "*", Keys: []string{strings.Repeat("a", n) + "b", "ab", strings.Repeat("a", n)}}
			h.Col.Case(true, []byte(fmt.Sprint("longpattern", n)), "server-long-pattern")
			h.Report("c17.server", c, evalC17Server(c))
		}
	}

	// large key spaces (an implementation may take another path there)
	h.Rapid("server-large", h.N(40, 1500), func(rt *rapid.T) {
		c := c17Server{Filler: rapid.SampledFrom([]int{100, 255, 1000, 1023, 1024, 1025, 1031, 2047, 2050, 4099}).Draw(rt, "filler")}
		c.Pattern = rapid.SampledFrom([]string{"*", "f*", "f?", "f??", "f1*", "*7", "f*3?", "f10?1", "f.*", "?", "*a*"}).Draw(rt, "lp")
		if rapid.IntRange(0, 3).Draw(rt, "randp") == 0 {
			c.Pattern = genStr(rt, "p", 6, false)
		}
		for i, n := 0, rapid.IntRange(0, 5).Draw(rt, "nkeys"); i < n; i++ {
			c.Keys = append(c.Keys, genStr(rt, "k", 6, true))
		}
		h.Col.Case(true, []byte(fmt.Sprint(c.Keys, c.Pattern, c.Filler)), "server-large")
		h.Fail(rt, "c17.server", c, evalC17Server(c))
	})
}
