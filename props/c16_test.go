package props

import (
	"fmt"
	"sort"
	"strconv"
	"strings"
	"sync"
	"sync/atomic"
	"testing"
	"time"

	"github.com/anishathalye/porcupine"
	exserver "github.com/cybergarage/go-redis/examples/go-redisd/server"
	"github.com/cybergarage/go-redis/redis"
	"pgregory.net/rapid"

	"verif/internal/connsim"
	"verif/internal/doubles"
	"verif/internal/model"
	"verif/internal/resp"
)

// ---- C16: commands are atomic with respect to concurrent clients ----

// c16Op is one client-side operation of a history.
type c16Op struct {
	Client int      `json:"client"`
	Cmd    []string `json:"cmd"`
	Call   int64    `json:"call"`
	Ret    int64    `json:"ret"`
	Out    string   `json:"out"` // rendered reply
}

type c16History struct {
	Store string     `json:"store"` // refstore | example
	Mode  string     `json:"mode"`  // controlled | uncontrolled
	Init  [][]string `json:"init,omitempty"`
	Ops   []c16Op    `json:"ops"`
}

func renderReply(v resp.Value) string {
	if v.IsError() {
		return "ERR"
	}
	switch v.Kind {
	case resp.Integer:
		return ":" + string(v.Data)
	case resp.Bulk:
		if v.Null {
			return "nil"
		}
		return "$" + string(v.Data)
	case resp.Status:
		return "+" + string(v.Data)
	}
	return v.String()
}

// the sequential specification: the Redis model over a handful of keys, state encoded as a string
func c16Model() porcupine.Model {
	type st = string
	decode := func(s st) *model.Model {
		m := model.New()
		db := m.DB(0)
		if s == "" {
			return m
		}
		for _, kv := range strings.Split(s, "\x00") {
			i := strings.IndexByte(kv, '=')
			db[kv[:i]] = &model.Entry{Kind: model.KString, S: kv[i+1:]}
		}
		return m
	}
	encode := func(m *model.Model) st {
		var parts []string
		for k, e := range m.DB(0) {
			parts = append(parts, k+"="+e.S)
		}
		sort.Strings(parts)
		return strings.Join(parts, "\x00")
	}
	return porcupine.Model{
		Init: func() interface{} { return "" },
		Step: func(state, input, output interface{}) (bool, interface{}) {
			m := decode(state.(st))
			res := m.Exec(0, input.([]string))
			got := output.(string)
			want := renderReply(res.Reply)
			// status and bulk compare as byte strings
			norm := func(s string) string {
				if strings.HasPrefix(s, "+") || strings.HasPrefix(s, "$") {
					return "s" + s[1:]
				}
				return s
			}
			return norm(got) == norm(want), encode(m)
		},
		Equal: func(a, b interface{}) bool { return a.(st) == b.(st) },
		DescribeOperation: func(input, output interface{}) string {
			return fmt.Sprintf("%v -> %v", input, output)
		},
	}
}

func c16Key(h c16History) string {
	kinds := map[string]bool{}
	for _, o := range h.Ops {
		kinds[strings.ToUpper(o.Cmd[0])] = true
	}
	var ks []string
	for k := range kinds {
		ks = append(ks, k)
	}
	sort.Strings(ks)
	return "c16|nonlinearizable|" + h.Store + "|" + strings.Join(ks, "+")
}

// evalC16History checks a recorded history for linearizability (complete search).
func evalC16History(h c16History) *Failure {
	var ops []porcupine.Operation
	// the initial state is established by sequential operations before everything else
	ts := int64(-1000000)
	m := model.New()
	for _, c := range h.Init {
		r := m.Exec(0, c)
		ops = append(ops, porcupine.Operation{ClientId: 0, Input: c, Call: ts, Output: renderReply(r.Reply), Return: ts + 1})
		ts += 2
	}
	for _, o := range h.Ops {
		ops = append(ops, porcupine.Operation{ClientId: o.Client, Input: o.Cmd, Call: o.Call, Output: o.Out, Return: o.Ret})
	}
	res := porcupine.CheckOperationsTimeout(c16Model(), ops, 60*time.Second)
	switch res {
	case porcupine.Ok:
		return nil
	case porcupine.Unknown:
		return failf("harness|porcupine-timeout", "linearizability search did not finish")
	}
	var lines []string
	for _, o := range h.Ops {
		lines = append(lines, fmt.Sprintf("c%d [%d,%d] %v -> %s", o.Client, o.Call, o.Ret, o.Cmd, o.Out))
	}
	return failf(c16Key(h), "history against the %s (%s) is not linearizable (initial %v):\n  %s", h.Store, h.Mode, h.Init, strings.Join(lines, "\n  "))
}

// c16Scenario is a re-executable controlled scenario (used for probes of repaired findings).
type c16Scenario struct {
	Init   [][]string `json:"init,omitempty"`
	Warm   [2]bool    `json:"warm,omitempty"` // client A / B first receives an error reply (INCR of a non-integer)
	Rounds []struct {
		A    []string `json:"a"`
		B    []string `json:"b"`
		Gate int      `json:"gate"`
	} `json:"rounds"`
}

func evalC16Scenario(sc c16Scenario) *Failure {
	var rs [][3]interface{}
	for _, r := range sc.Rounds {
		rs = append(rs, [3]interface{}{r.A, r.B, r.Gate})
	}
	hist, err := runControlled(sc.Init, rs, sc.Warm)
	if err != nil {
		return failf("harness|controlled", "controlled run: %v", err)
	}
	return evalC16History(hist)
}

// evalC16Wide: everything a command does happens before it is answered (see c05Wide): a handler call still running or
// started after the reply is an effect outside the command.
func evalC16Wide(c c05Wide) *Failure {
	f := evalC05Wide(c)
	if f != nil && strings.HasPrefix(f.Key, "c05|calls-after-reply") {
		return failf("c16|effects-after-reply|"+c.Cmd, "%s", f.Detail)
	}
	return nil
}

func init() {
	register("c16.wide", evalC16Wide)
	register("c16.history", evalC16History)
	register("c16.scenario", evalC16Scenario)
}

// ---- running workloads

type c16Plan struct {
	Store   string       `json:"store"`
	Init    [][]string   `json:"init"`
	Clients [][][]string `json:"clients"` // per client: its operations in order
}

// gate is the turnstile installed into the reference store for the controlled mode.
type c16Gate struct {
	mu      sync.Mutex
	holdCl  int // client to hold (-1: nobody)
	holdAt  int // hold at its n-th "before" gate (0-based) of the current operation
	count   map[int]int
	parked  chan struct{}
	release chan struct{}
}

func (g *c16Gate) fn(phase, method string, conn *redis.Conn) {
	if phase != "before" && phase != "mid" {
		return
	}
	sc, ok := conn.Conn.(*connsim.ScriptConn)
	if !ok {
		return
	}
	g.mu.Lock()
	n := g.count[sc.ID]
	g.count[sc.ID] = n + 1
	hold := g.holdCl == sc.ID && g.holdAt == n
	var parked, release chan struct{}
	if hold {
		g.holdCl = -1
		parked, release = g.parked, g.release
	}
	g.mu.Unlock()
	if hold {
		close(parked)
		<-release
	}
}

// runControlled executes rounds "A parked at its g-th primitive while B runs" and returns the history.
// c16Nested: client A / B sends its operations in the nested form (an array whose only element is the command array),
// which the server unwraps and executes like the plain form.
var c16Nested [2]bool

func c16Encode(client int, cmd []string) []byte {
	if client < 2 && c16Nested[client] {
		return resp.A(resp.Cmd(cmd...)).Bytes()
	}
	return resp.Cmd(cmd...).Bytes()
}

// runLateConnect: client A is the only connection of the server and is parked inside its command when client B
// connects and issues its command.
func runLateConnect(init [][]string, opA, opB []string, gateIdx int) (c16History, error) {
	srv := redis.NewServer()
	store := doubles.NewRefStore()
	store.SplitRMW = true
	srv.SetCommandHandler(store)
	g := &c16Gate{holdCl: -1, count: map[int]int{}}
	store.Gate = g.fn
	h := c16History{Store: "refstore", Mode: "late-connect", Init: init}
	m, err := connsim.NewMulti(srv, 1, serveTimeout())
	if err != nil {
		return h, err
	}
	defer m.CloseAll()
	for _, c := range init {
		if _, _, err := m.Step(0, resp.Cmd(c...).Bytes()); err != nil {
			return h, err
		}
	}
	g.mu.Lock()
	g.count = map[int]int{}
	g.holdCl, g.holdAt = 0, gateIdx
	g.parked, g.release = make(chan struct{}), make(chan struct{})
	parked, release := g.parked, g.release
	g.mu.Unlock()
	var clock int64
	type done struct {
		op  c16Op
		err error
	}
	run := func(client int, cmd []string, ch chan done) {
		call := atomic.AddInt64(&clock, 1)
		frames, _, err := m.Step(client, resp.Cmd(cmd...).Bytes())
		ret := atomic.AddInt64(&clock, 1)
		out := "<no reply>"
		if len(frames) == 1 {
			out = renderReply(frames[0])
		}
		ch <- done{c16Op{Client: client, Cmd: cmd, Call: call, Ret: ret, Out: out}, err}
	}
	chA, chB := make(chan done, 1), make(chan done, 1)
	go run(0, opA, chA)
	var dA, dB done
	aDone := false
	select {
	case <-parked:
	case dA = <-chA:
		aDone = true
	case <-time.After(serveTimeout()):
		return h, connsim.ErrTimeout
	}
	if err := m.Open(); err != nil { // the second client arrives only now
		return h, err
	}
	go run(1, opB, chB)
	bDone := false
	if !aDone {
		select {
		case dB = <-chB:
			bDone = true
		case <-time.After(3 * time.Millisecond):
		}
		close(release)
		select {
		case dA = <-chA:
		case <-time.After(serveTimeout()):
			return h, connsim.ErrTimeout
		}
	}
	if !bDone {
		select {
		case dB = <-chB:
		case <-time.After(serveTimeout()):
			return h, connsim.ErrTimeout
		}
	}
	if dA.err != nil || dB.err != nil {
		return h, fmt.Errorf("step error: %v %v", dA.err, dB.err)
	}
	h.Ops = append(h.Ops, dA.op, dB.op)
	return h, nil
}

func runControlled(init [][]string, rounds [][3]interface{}, warms ...[2]bool) (c16History, error) {
	var warm [2]bool
	if len(warms) > 0 {
		warm = warms[0]
	}
	if warm[0] || warm[1] {
		init = append(append([][]string{}, init...), []string{"SET", "z", "abc"})
	}
	srv := redis.NewServer()
	store := doubles.NewRefStore()
	store.SplitRMW = true // a handler that relies on commands being executed one at a time
	srv.SetCommandHandler(store)
	g := &c16Gate{holdCl: -1, count: map[int]int{}}
	store.Gate = g.fn
	h := c16History{Store: "refstore", Mode: "controlled", Init: init}
	m, err := connsim.NewMulti(srv, 3, serveTimeout())
	if err != nil {
		return h, err
	}
	defer m.CloseAll()
	for _, c := range init {
		if _, _, err := m.Step(2, resp.Cmd(c...).Bytes()); err != nil {
			return h, err
		}
	}
	var clock int64
	tick := func() int64 { return atomic.AddInt64(&clock, 1) }
	for cl, w := range warm {
		if !w {
			continue
		}
		// state left over from an earlier request on the error path: the connection first gets an ordinary error reply
		cmd := []string{"INCR", "z"}
		call := tick()
		frames, _, err := m.Step(cl, resp.Cmd(cmd...).Bytes())
		if err != nil || len(frames) != 1 {
			return h, fmt.Errorf("warm-up: %v", err)
		}
		h.Ops = append(h.Ops, c16Op{Client: cl, Cmd: cmd, Call: call, Ret: tick(), Out: renderReply(frames[0])})
	}
	for _, r := range rounds {
		opA, opB, gateIdx := r[0].([]string), r[1].([]string), r[2].(int)
		g.mu.Lock()
		g.count = map[int]int{}
		g.holdCl, g.holdAt = 0, gateIdx
		g.parked, g.release = make(chan struct{}), make(chan struct{})
		parked, release := g.parked, g.release
		g.mu.Unlock()
		type done struct {
			op  c16Op
			err error
		}
		run := func(client int, cmd []string, ch chan done) {
			call := tick()
			frames, _, err := m.Step(client, c16Encode(client, cmd))
			ret := tick()
			out := "<no reply>"
			if len(frames) == 1 {
				out = renderReply(frames[0])
			}
			ch <- done{c16Op{Client: client, Cmd: cmd, Call: call, Ret: ret, Out: out}, err}
		}
		chA, chB := make(chan done, 1), make(chan done, 1)
		go run(0, opA, chA)
		var dA, dB done
		aDone := false
		select {
		case <-parked:
		case dA = <-chA: // A has fewer primitives than gateIdx: it completed
			aDone = true
		case <-time.After(serveTimeout()):
			return h, connsim.ErrTimeout
		}
		go run(1, opB, chB)
		bDone := false
		if !aDone {
			// give B the chance to run inside A's window; with commands executed one at a time B blocks
			// until A is released - the wait below is a scheduling aid, never a verdict
			select {
			case dB = <-chB:
				bDone = true
			case <-time.After(3 * time.Millisecond):
			}
			close(release)
			select {
			case dA = <-chA:
			case <-time.After(serveTimeout()):
				return h, connsim.ErrTimeout
			}
		}
		if !bDone {
			select {
			case dB = <-chB:
			case <-time.After(serveTimeout()):
				return h, connsim.ErrTimeout
			}
		}
		g.mu.Lock()
		g.holdCl = -1
		g.mu.Unlock()
		if dA.err != nil || dB.err != nil {
			return h, fmt.Errorf("step error: %v %v", dA.err, dB.err)
		}
		h.Ops = append(h.Ops, dA.op, dB.op)
	}
	return h, nil
}

// runUncontrolled lets every client run its operations on its own goroutine.
func runUncontrolled(p c16Plan) (c16History, error) {
	var srv *redis.Server
	if p.Store == "example" {
		srv = exserver.NewServer().Server
	} else {
		srv = redis.NewServer()
		srv.SetCommandHandler(doubles.NewRefStore())
	}
	h := c16History{Store: p.Store, Mode: "uncontrolled", Init: p.Init}
	m, err := connsim.NewMulti(srv, len(p.Clients)+1, serveTimeout())
	if err != nil {
		return h, err
	}
	defer m.CloseAll()
	setup := len(p.Clients)
	for _, c := range p.Init {
		if _, _, err := m.Step(setup, resp.Cmd(c...).Bytes()); err != nil {
			return h, err
		}
	}
	var clock int64
	var mu sync.Mutex
	var wg sync.WaitGroup
	var firstErr error
	start := make(chan struct{})
	for ci, ops := range p.Clients {
		wg.Add(1)
		go func(ci int, ops [][]string) {
			defer wg.Done()
			<-start
			for _, cmd := range ops {
				call := atomic.AddInt64(&clock, 1)
				frames, _, err := m.Step(ci, resp.Cmd(cmd...).Bytes())
				ret := atomic.AddInt64(&clock, 1)
				out := "<no reply>"
				if len(frames) == 1 {
					out = renderReply(frames[0])
				}
				mu.Lock()
				h.Ops = append(h.Ops, c16Op{Client: ci, Cmd: cmd, Call: call, Ret: ret, Out: out})
				if err != nil && firstErr == nil {
					firstErr = err
				}
				mu.Unlock()
				if err != nil {
					return
				}
			}
		}(ci, ops)
	}
	close(start)
	wg.Wait()
	for i := range m.Conns {
		if o := m.Outcome(i); o != nil && o.Panic != nil {
			return h, fmt.Errorf("panic on connection %d: %v", i, o.Panic)
		}
	}
	return h, firstErr
}

var c16Keys = []string{"a", "b", "c"}

func c16GenOp(rt *rapid.T, nkeys int) []string {
	k := func() string { return c16Keys[rapid.IntRange(0, nkeys-1).Draw(rt, "key")] }
	v := func() string { return strconv.Itoa(rapid.IntRange(0, 3).Draw(rt, "val")) }
	switch rapid.IntRange(0, 11).Draw(rt, "op") {
	case 11:
		return []string{"DEL", k(), "zz", c16Keys[nkeys-1]} // several keys in one DEL
	case 0:
		return []string{"GET", k()}
	case 1:
		return []string{"SET", k(), v()}
	case 2:
		return []string{"SETNX", k(), v()}
	case 3:
		return []string{"GETSET", k(), v()}
	case 4, 5:
		return []string{"INCR", k()}
	case 6:
		return []string{"DECRBY", k(), v()}
	case 7:
		return []string{"APPEND", k(), v()}
	case 8:
		return []string{"MSETNX", c16Keys[0], v(), c16Keys[nkeys-1], v()}
	case 9:
		return []string{"DEL", k()}
	default:
		return []string{"INCR", k()}
	}
}

func overlapping(h c16History) bool {
	for i, a := range h.Ops {
		for _, b := range h.Ops[i+1:] {
			if a.Client == b.Client || a.Call > b.Ret || b.Call > a.Ret {
				continue
			}
			write := func(o c16Op) bool { return strings.ToUpper(o.Cmd[0]) != "GET" }
			if !write(a) && !write(b) {
				continue
			}
			for _, ka := range a.Cmd[1:] {
				for _, kb := range b.Cmd[1:] {
					if ka == kb && (ka == "a" || ka == "b" || ka == "c") {
						return true
					}
				}
			}
		}
	}
	return false
}

func TestC16(t *testing.T) {
	h := newHarness(t, "C16", "concurrent histories of GET/SET/SETNX/GETSET/INCR/DECRBY/APPEND/MSETNX/DEL (one or several keys) over 1..3 keys. CONTROLLED mode (reference store with a turnstile before every primitive handler call): client A is parked at its g-th primitive call "+
		"(g in 0..2, i.e. before Get, between Get and Set, ...) while client B's command is started - exhaustively for all pairs of operation kinds x g x {key absent, key=5}, and in random multi-round sequences; "+
		"UNCONTROLLED mode: 2..8 clients x 1..4 operations on real goroutines against the reference store and against the bundled example store. Oracle: the recorded client-side history (logical-clock invoke/return stamps) must be linearizable "+
		"against the sequential Redis model (porcupine, complete search). TURNS mode: 2..3 clients taking turns without overlap against both stores (the history's only admissible order is the real-time one; state cached per connection shows here). SLOW-READER mode: a client's command has been executed but its reply is held back while two other clients work, then delivered. NESTED FORM: requests sent as an array holding the command array. LATE CONNECT: the second client connects while the first, alone so far, is inside its command. WIDE commands (MSET/MSETNX/MGET/DEL over 2..40 keys) against a handler that takes a moment per call and fails at one: no handler call may be running or started once the command is answered. In controlled and hammer runs a client may first receive an error reply (INCR of a non-integer). "+
		"Non-trivial: two operations of different clients on the same key overlap in time and at least one writes (turns mode: operations of at least two clients). Distinct = distinct history (operations, order and results).")
	defer h.Finish()
	h.Probes()

	record := func(hist c16History, class string) bool {
		canon := []byte(fmt.Sprint(hist.Store, hist.Mode, hist.Init, hist.Ops))
		h.Col.Case(overlapping(hist), canon, class, "store:"+hist.Store)
		if h.Col.WantSample() {
			h.Col.Sample(hist)
		}
		return h.Report("c16.history", hist, evalC16History(hist))
	}

	// (a) exhaustive pairs in controlled mode
	if h.Shard == 0 {
		kinds := [][]string{{"GET", "a"}, {"SET", "a", "7"}, {"SETNX", "a", "8"}, {"GETSET", "a", "9"}, {"INCR", "a"}, {"DECRBY", "a", "2"}, {"APPEND", "a", "1"}, {"MSETNX", "a", "3", "b", "4"}, {"DEL", "a"}, {"DEL", "a", "b"}}
		inits := [][][]string{nil, {{"SET", "a", "5"}}}
		complete := true
	pairs:
		for _, init := range inits {
			for _, a := range kinds {
				for _, b := range kinds {
					for g := 0; g <= 3; g++ {
						for _, warm := range [][2]bool{{false, false}, {true, false}, {false, true}} {
							if (warm[0] || warm[1]) && g != 1 {
								continue // warmed-up connections: parked between the first and the second primitive only
							}
							hist, err := runControlled(init, [][3]interface{}{{a, b, g}}, warm)
							if err != nil {
								t.Fatalf("controlled run: %v", err)
							}
							if !record(hist, "controlled-pair") {
								complete = false
								break pairs
							}
						}
					}
				}
			}
		}
		// the same pairs at park point 1 with A or B sending the nested form, and with B connecting only after A is parked
		if complete {
		extra:
			for _, init := range inits {
				for _, a := range kinds {
					for _, b := range kinds {
						for _, nested := range [][2]bool{{true, false}, {false, true}} {
							c16Nested = nested
							hist, err := runControlled(init, [][3]interface{}{{a, b, 1}})
							c16Nested = [2]bool{}
							if err != nil {
								t.Fatalf("controlled run: %v", err)
							}
							hist.Mode = fmt.Sprintf("controlled, nested form %v", nested)
							if !record(hist, "controlled-pair-nested") {
								complete = false
								break extra
							}
						}
						hist, err := runLateConnect(init, a, b, 1)
						if err != nil {
							t.Fatalf("late-connect run: %v", err)
						}
						if !record(hist, "late-connect-pair") {
							complete = false
							break extra
						}
					}
				}
			}
		}
		h.Col.Exhaustive("controlled: all ordered pairs of 10 operation kinds x park point 0..3 x {absent, a=5}, and at park point 1 also with A or B having received an error reply before, with A or B sending the nested request form, and with B connecting only after A (the only connection so far) is parked", complete)
	}

	// (a') random multi-round controlled sequences
	h.Rapid("controlled", h.N(600, 40000), func(rt *rapid.T) {
		nkeys := rapid.IntRange(1, 2).Draw(rt, "nkeys")
		var init [][]string
		if rapid.Bool().Draw(rt, "init") {
			init = append(init, []string{"SET", "a", strconv.Itoa(rapid.IntRange(0, 9).Draw(rt, "iv"))})
		}
		rounds := rapid.IntRange(1, 3).Draw(rt, "rounds")
		var rs [][3]interface{}
		for i := 0; i < rounds; i++ {
			rs = append(rs, [3]interface{}{c16GenOp(rt, nkeys), c16GenOp(rt, nkeys), rapid.IntRange(0, 3).Draw(rt, "gate")})
		}
		warm := [2]bool{rapid.IntRange(0, 3).Draw(rt, "warmA") == 0, rapid.IntRange(0, 3).Draw(rt, "warmB") == 0}
		hist, err := runControlled(init, rs, warm)
		if err != nil {
			rt.Fatalf("controlled run: %v", err)
		}
		canon := []byte(fmt.Sprint(hist.Init, hist.Ops))
		h.Col.Case(overlapping(hist), canon, "controlled-rounds", "store:refstore")
		h.Fail(rt, "c16.history", hist, evalC16History(hist))
	})

	// (b') uncontrolled "hammer": many clients issuing the same kind of read-modify-write command on one key
	h.Rapid("hammer", h.N(150, 20000), func(rt *rapid.T) {
		p := c16Plan{Store: rapid.SampledFrom([]string{"example", "example", "refstore"}).Draw(rt, "store")}
		kind := rapid.SampledFrom([]string{"GETSET", "SETNX", "INCR", "APPEND", "DECRBY", "MSETNX", "DELn+SETNX", "mixed"}).Draw(rt, "kind")
		if rapid.Bool().Draw(rt, "init") {
			p.Init = append(p.Init, []string{"SET", "a", "5"})
		}
		nc := rapid.IntRange(4, 8).Draw(rt, "clients")
		warmAll := rapid.IntRange(0, 2).Draw(rt, "warm") == 0
		if warmAll {
			p.Init = append(p.Init, []string{"SET", "z", "abc"})
		}
		for i := 0; i < nc; i++ {
			var ops [][]string
			if warmAll {
				ops = append(ops, []string{"INCR", "z"})
			}
			for j, k := 0, rapid.IntRange(1, 3).Draw(rt, "nops"); j < k; j++ {
				v := strconv.Itoa(10*i + j)
				switch kind {
				case "GETSET":
					ops = append(ops, []string{"GETSET", "a", v})
				case "SETNX":
					ops = append(ops, []string{"SETNX", "a", v})
				case "INCR":
					ops = append(ops, []string{"INCR", "a"})
				case "APPEND":
					ops = append(ops, []string{"APPEND", "a", strconv.Itoa(i)})
				case "DECRBY":
					ops = append(ops, []string{"DECRBY", "a", "1"})
				case "MSETNX":
					ops = append(ops, []string{"MSETNX", "a", v, "b", v})
				case "DELn+SETNX":
					if (i+j)%2 == 0 {
						ops = append(ops, []string{"DEL", "a", "never-stored"})
					} else {
						ops = append(ops, []string{"SETNX", "a", v})
					}
				default:
					ops = append(ops, c16GenOp(rt, 1))
				}
			}
			p.Clients = append(p.Clients, ops)
		}
		hist, err := runUncontrolled(p)
		if err != nil {
			h.Fail(rt, "c16.history", hist, failf("c16|run-error|"+p.Store, "uncontrolled run failed: %v", err))
			return
		}
		sort.Slice(hist.Ops, func(i, j int) bool { return hist.Ops[i].Call < hist.Ops[j].Call })
		h.Col.Case(overlapping(hist), []byte(fmt.Sprint(hist.Store, hist.Init, hist.Ops)), "hammer:"+kind, "store:"+p.Store)
		h.Fail(rt, "c16.history", hist, evalC16History(hist))
	})

	// (e) commands over many keys with a slow, failing handler: no effect after the reply
	h.Rapid("wide", h.N(60, 2000), func(rt *rapid.T) {
		c := c05Wide{Cmd: rapid.SampledFrom([]string{"MSET", "MSETNX", "MGET", "DEL"}).Draw(rt, "cmd"), N: rapid.SampledFrom([]int{2, 8, 9, 16, 40}).Draw(rt, "n"), DelayUS: rapid.SampledFrom([]int{200, 1000}).Draw(rt, "delay")}
		c.ErrAt = rapid.IntRange(-1, c.N).Draw(rt, "errat")
		h.Col.Case(c.N >= 8, []byte(fmt.Sprint("wide", c)), "wide-command")
		h.Fail(rt, "c16.wide", c, evalC16Wide(c))
	})

	// (c) several clients taking turns (no overlap in time): the degenerate histories whose only sequential order is the real-time one
	h.Rapid("turns", h.N(1500, 60000), func(rt *rapid.T) {
		store := rapid.SampledFrom([]string{"example", "example", "refstore"}).Draw(rt, "store")
		var srv *redis.Server
		if store == "example" {
			srv = exserver.NewServer().Server
		} else {
			srv = redis.NewServer()
			srv.SetCommandHandler(doubles.NewRefStore())
		}
		nc := rapid.IntRange(2, 3).Draw(rt, "clients")
		nkeys := rapid.IntRange(1, 2).Draw(rt, "nkeys")
		m, err := connsim.NewMulti(srv, nc, serveTimeout())
		if err != nil {
			rt.Fatalf("multi: %v", err)
		}
		defer m.CloseAll()
		hist := c16History{Store: store, Mode: "turns"}
		var clock int64
		for i, n := 0, rapid.IntRange(3, 12).Draw(rt, "nops"); i < n; i++ {
			cl := rapid.IntRange(0, nc-1).Draw(rt, "client")
			var cmd []string
			switch rapid.IntRange(0, 5).Draw(rt, "plain") {
			case 0, 1:
				cmd = []string{"GET", c16Keys[rapid.IntRange(0, nkeys-1).Draw(rt, "key")]}
			case 2, 3:
				cmd = []string{"SET", c16Keys[rapid.IntRange(0, nkeys-1).Draw(rt, "key")], strconv.Itoa(rapid.IntRange(0, 9).Draw(rt, "val"))}
			default:
				cmd = c16GenOp(rt, nkeys)
			}
			clock++
			call := clock
			frames, _, err := m.Step(cl, resp.Cmd(cmd...).Bytes())
			clock++
			out := "<no reply>"
			if len(frames) == 1 {
				out = renderReply(frames[0])
			}
			hist.Ops = append(hist.Ops, c16Op{Client: cl, Cmd: cmd, Call: call, Ret: clock, Out: out})
			if err != nil {
				h.Fail(rt, "c16.history", hist, failf("c16|run-error|"+store, "run failed: %v", err))
				return
			}
		}
		clients := map[int]bool{}
		for _, o := range hist.Ops {
			clients[o.Client] = true
		}
		h.Col.Case(len(clients) >= 2, []byte(fmt.Sprint(hist.Store, hist.Mode, hist.Ops)), "turns", "store:"+store)
		h.Fail(rt, "c16.history", hist, evalC16History(hist))
	})

	// (d) a client that reads its reply late: its command has been executed, its reply is held back while others work
	h.Rapid("slow-reader", h.N(400, 20000), func(rt *rapid.T) {
		store := rapid.SampledFrom([]string{"example", "refstore"}).Draw(rt, "store")
		var srv *redis.Server
		if store == "example" {
			srv = exserver.NewServer().Server
		} else {
			srv = redis.NewServer()
			srv.SetCommandHandler(doubles.NewRefStore())
		}
		m, err := connsim.NewMulti(srv, 3, serveTimeout())
		if err != nil {
			rt.Fatalf("multi: %v", err)
		}
		defer m.CloseAll()
		hist := c16History{Store: store, Mode: "slow-reader"}
		if rapid.Bool().Draw(rt, "init") {
			hist.Init = [][]string{{"SET", "a", strconv.Itoa(rapid.IntRange(0, 9).Draw(rt, "iv"))}}
			m.Step(2, resp.Cmd(hist.Init[0]...).Bytes())
		}
		var clock int64
		for r, nr := 0, rapid.IntRange(1, 3).Draw(rt, "rounds"); r < nr; r++ {
			opA := c16GenOp(rt, 1)
			clock++
			callA := clock
			before := m.Conns[0].FrameCount()
			m.Conns[0].BlockWrites = true
			m.Conns[0].Feed(resp.Cmd(opA...).Bytes())
			if !m.Conns[0].WaitWriteBlocked(serveTimeout()) {
				rt.Fatalf("the reply to %v was not written", opA)
			}
			for j, nb := 0, rapid.IntRange(1, 3).Draw(rt, "nb"); j < nb; j++ {
				opB := c16GenOp(rt, 1)
				cl := 1 + rapid.IntRange(0, 1).Draw(rt, "peer")
				clock++
				call := clock
				frames, _, err := m.Step(cl, resp.Cmd(opB...).Bytes())
				clock++
				out := "<no reply>"
				if len(frames) == 1 {
					out = renderReply(frames[0])
				}
				hist.Ops = append(hist.Ops, c16Op{Client: cl, Cmd: opB, Call: call, Ret: clock, Out: out})
				if err != nil {
					h.Fail(rt, "c16.history", hist, failf("c16|run-error|"+store, "run failed: %v", err))
					return
				}
			}
			m.Conns[0].UnblockWrites()
			_, _, err := m.Step(0, nil)
			clock++
			out := "<no reply>"
			if all, _, _ := m.Conns[0].Frames(); len(all) == before+1 {
				out = renderReply(all[before])
			}
			hist.Ops = append(hist.Ops, c16Op{Client: 0, Cmd: opA, Call: callA, Ret: clock, Out: out})
			if err != nil {
				h.Fail(rt, "c16.history", hist, failf("c16|run-error|"+store, "run failed: %v", err))
				return
			}
		}
		sort.Slice(hist.Ops, func(i, j int) bool { return hist.Ops[i].Call < hist.Ops[j].Call })
		h.Col.Case(overlapping(hist), []byte(fmt.Sprint(hist.Store, hist.Mode, hist.Init, hist.Ops)), "slow-reader", "store:"+store)
		h.Fail(rt, "c16.history", hist, evalC16History(hist))
	})

	// (b) uncontrolled
	h.Rapid("uncontrolled", h.N(400, 25000), func(rt *rapid.T) {
		p := c16Plan{Store: rapid.SampledFrom([]string{"refstore", "example", "example"}).Draw(rt, "store")}
		nkeys := rapid.IntRange(1, 3).Draw(rt, "nkeys")
		if rapid.Bool().Draw(rt, "init") {
			p.Init = append(p.Init, []string{"SET", "a", "5"})
		}
		nc := rapid.IntRange(2, 8).Draw(rt, "clients")
		for i := 0; i < nc; i++ {
			var ops [][]string
			for j, k := 0, rapid.IntRange(1, 4).Draw(rt, "nops"); j < k; j++ {
				ops = append(ops, c16GenOp(rt, nkeys))
			}
			p.Clients = append(p.Clients, ops)
		}
		hist, err := runUncontrolled(p)
		if err != nil {
			// a run that could not complete is reported through the history check only if it is a panic
			h.Fail(rt, "c16.history", hist, failf("c16|run-error|"+p.Store, "uncontrolled run failed: %v", err))
			return
		}
		sort.Slice(hist.Ops, func(i, j int) bool { return hist.Ops[i].Call < hist.Ops[j].Call })
		canon := []byte(fmt.Sprint(hist.Store, hist.Init, hist.Ops))
		h.Col.Case(overlapping(hist), canon, "uncontrolled", "store:"+p.Store)
		if h.Col.WantSample() {
			h.Col.Sample(hist)
		}
		h.Fail(rt, "c16.history", hist, evalC16History(hist))
	})
}
