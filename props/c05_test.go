package props

import (
	"bytes"
	"fmt"
	"sort"
	"strconv"
	"strings"
	"sync/atomic"
	"testing"
	"time"

	"github.com/cybergarage/go-redis/redis"
	"pgregory.net/rapid"

	"verif/internal/cmdspec"
	"verif/internal/connsim"
	"verif/internal/doubles"
	"verif/internal/resp"
)

// ---- C05: commands reach the handler with exactly the arguments sent ----

type c05Case struct {
	Inst      cmdspec.Inst `json:"inst"`
	Args      []resp.Bin   `json:"args"`
	PreSelect *int         `json:"pre_select,omitempty"`
	// IntAsInteger: required integer arguments are sent as RESP integers (":n") instead of bulk strings. NOT generated:
	// the unchanged tree itself accepts that encoding for some commands and refuses it for others (ZRANGE), so it is
	// not part of "well-formed argument list"; kept for experiments through replay files.
	IntAsInteger bool `json:"int_as_integer,omitempty"`
	// Ret: what the handler returns for this request - "" (a message) | error | both (a message AND an error)
	Ret string `json:"ret,omitempty"`
	// Tracer: a tracer is installed on the server
	Tracer bool `json:"tracer,omitempty"`
}

// intPositions: argument indexes of the request that the positional schema types as integers.
func intPositions(args []resp.Bin) []int {
	if len(args) == 0 {
		return nil
	}
	name := strings.ToUpper(string(args[0]))
	var out []int
	for _, sc := range cmdspec.Schemas {
		if sc.Name != name || len(sc.Pre) > 0 {
			continue
		}
		for i, k := range sc.Pos {
			if (k == cmdspec.PI || k == cmdspec.PPI || k == cmdspec.PIdx) && 1+i < len(args) {
				out = append(out, 1+i)
			}
		}
	}
	return out
}

var scanSampleKeys = []string{"", "a", "b", "k", "ab", "ba", "abc", "a.c", "a+b", "k1", "k:1", "(", "a|b", "$", "^a", "{", "aXb", "kk", "1", "a\nb", "::", "a(b"}

func callStr(c doubles.Call) string {
	return c.Method + "(" + strings.Join(quoteAll(c.Args), ", ") + ")"
}

func quoteAll(ss []string) []string {
	out := make([]string, len(ss))
	for i, s := range ss {
		out[i] = strconv.Quote(s)
	}
	return out
}

func expStr(e cmdspec.ExpCall) string {
	return e.Method + "(" + strings.Join(quoteAll(e.Args), ", ") + ")"
}

// matchCall compares one recorded call with one expected call.
func matchCall(got doubles.Call, exp cmdspec.ExpCall, t0, t1 time.Time) bool {
	if got.Method != exp.Method {
		return false
	}
	if exp.KeyOnly {
		return len(got.Args) > 0 && len(exp.Args) > 0 && got.Args[0] == exp.Args[0]
	}
	if len(got.Args) != len(exp.Args) {
		return false
	}
	for i := range exp.Args {
		if exp.ExpireTTL && i == 1 {
			ttl, _ := strconv.ParseInt(exp.Args[1], 10, 64)
			at, err := strconv.ParseInt(got.Args[1], 10, 64)
			if err != nil {
				return false
			}
			lo := t0.Add(time.Duration(ttl) * time.Second).UnixNano()
			hi := t1.Add(time.Duration(ttl) * time.Second).UnixNano()
			if at < lo || at > hi {
				return false
			}
			continue
		}
		if got.Args[i] != exp.Args[i] {
			return false
		}
	}
	return true
}

func evalC05(c c05Case) (fl *Failure) {
	in := c.Inst
	srv, rec := newRecServer()
	srv.SetAuthCommandHandler(rec)
	rec.ResultFn = getModeResult(in.GetMode, in.GetValue)
	if c.Tracer {
		srv.SetTracer(doubles.NewTracer(&connsim.Log{}))
	}
	var reqs [][]resp.Bin
	if c.PreSelect != nil {
		reqs = append(reqs, []resp.Bin{resp.Bin("SELECT"), resp.Bin(strconv.Itoa(*c.PreSelect))})
	}
	reqs = append(reqs, c.Args)
	data, _ := encodeReqs(reqs)
	if c.IntAsInteger {
		var vals []resp.Value
		for ri, r := range reqs {
			v := resp.Value{Kind: resp.Array}
			isInt := map[int]bool{}
			if ri == len(reqs)-1 {
				for _, i := range intPositions(r) {
					if n, err := strconv.ParseInt(string(r[i]), 10, 64); err == nil && strconv.FormatInt(n, 10) == string(r[i]) {
						isInt[i] = true
					}
				}
			}
			for i, a := range r {
				if isInt[i] {
					v.Elems = append(v.Elems, resp.Value{Kind: resp.Integer, Data: a})
				} else {
					v.Elems = append(v.Elems, resp.BB(a))
				}
			}
			vals = append(vals, v)
		}
		data, _ = resp.EncodeAll(vals)
	}
	if c.Ret != "" {
		base := rec.ResultFn
		rec.ResultFn = func(cl *doubles.Call) doubles.Result {
			r := base(cl)
			if cl.Frames == len(reqs)-1 {
				r.Err = "ERR scripted handler error"
				if c.Ret == "error" {
					r.Val = nil
				}
			}
			return r
		}
	}
	conn := connsim.NewPreloaded(1, [][]byte{data})
	t0 := time.Now()
	o := connsim.Serve(srv, conn, serveTimeout())
	t1 := time.Now()
	what := fmt.Sprintf("%s", reqString(c.Args))
	if o.TimedOut {
		return stallFailure("c05|"+in.Name, what)
	}
	if o.Panic != nil {
		return failf("c05|panic|"+panicKey(o)+"|"+in.Name, "%s: panic in the connection loop: %v", what, o.Panic)
	}
	frames, _, err := conn.Frames()
	if err != nil {
		return failf("c05|frames|"+in.Name, "%s: reply stream is not well-formed (%v): %q", what, err, clip(conn.Out()))
	}
	if len(frames) != len(reqs) {
		return failf("c05|reply-count|"+in.Name, "%s: %d replies for %d requests: %q", what, len(frames), len(reqs), clip(conn.Out()))
	}
	reply := frames[len(frames)-1]
	calls := rec.Snapshot()
	wantDB := 0
	if c.PreSelect != nil {
		wantDB = *c.PreSelect
	}
	// the calls
	describe := func() string {
		var g, e []string
		for _, x := range calls {
			g = append(g, callStr(x))
		}
		for _, x := range in.Calls {
			e = append(e, expStr(x))
		}
		return fmt.Sprintf("recorded calls %v, expected %v (reply %s)", g, e, reply)
	}
	for _, cl := range calls {
		if cl.Conn != conn {
			return failf("c05|conn|"+in.Name, "%s: handler call %s did not carry the connection the request arrived on", what, callStr(cl))
		}
		if cl.DB != wantDB {
			return failf("c05|database|"+in.Name, "%s: handler call %s saw database %d, the connection had selected %d", what, callStr(cl), cl.DB, wantDB)
		}
	}
	switch {
	case in.Loose == "msetnx-exists":
		keys := map[string]bool{}
		for _, e := range in.Calls {
			keys[e.Args[0]] = true
		}
		if len(calls) == 0 {
			return failf("c05|calls|"+in.Name, "%s: no handler call at all; %s", what, describe())
		}
		for _, cl := range calls {
			if cl.Method != "Get" || !keys[cl.Args[0]] {
				return failf("c05|calls|"+in.Name, "%s: %s", what, describe())
			}
		}
	case in.Unordered:
		if len(calls) != len(in.Calls) {
			return failf("c05|calls|"+in.Name, "%s: %s", what, describe())
		}
		used := make([]bool, len(calls))
		for _, e := range in.Calls {
			found := false
			for i, cl := range calls {
				if !used[i] && matchCall(cl, e, t0, t1) {
					used[i], found = true, true
					break
				}
			}
			if !found {
				return failf("c05|calls|"+in.Name, "%s: %s", what, describe())
			}
		}
		if in.Name == "MSETNX" {
			// all Gets come before all Sets
			seenSet := false
			for _, cl := range calls {
				if cl.Method == "Set" {
					seenSet = true
				} else if seenSet {
					return failf("c05|calls-order|"+in.Name, "%s: a Get after a Set; %s", what, describe())
				}
			}
		}
	default:
		if len(calls) != len(in.Calls) {
			return failf("c05|calls|"+in.Name, "%s: %s", what, describe())
		}
		for i, e := range in.Calls {
			if !matchCall(calls[i], e, t0, t1) {
				return failf("c05|calls|"+in.Name, "%s: call %d differs; %s", what, i, describe())
			}
		}
	}
	// SCAN: the matcher received must behave like the glob of the pattern sent
	if in.ScanMatch != nil && len(calls) == 1 {
		p := calls[0].Pattern
		if p == nil {
			return failf("c05|scan-match|nil", "%s: handler received no match pattern", what)
		}
		for _, k := range scanSampleKeys {
			want := cmdspec.GlobMatch(*in.ScanMatch, k)
			if got := p.MatchString(k); got != want {
				return failf("c05|scan-match|SCAN", "%s: the matcher handed to Scan for pattern %q says %v for key %q, glob semantics say %v", what, *in.ScanMatch, got, k, want)
			}
		}
	}
	// the reply
	if c.Ret != "" {
		// an error returned by the handler (with or without a message) reaches the client as an error reply
		if in.Reply == cmdspec.ReplyPassThrough && len(calls) == 1 && !reply.IsError() {
			return failf("c05|reply-error|"+in.Name, "%s: the handler returned an error (%s), the client received %s", what, c.Ret, reply)
		}
		return nil
	}
	switch in.Reply {
	case cmdspec.ReplyPassThrough:
		if len(calls) != 1 || calls[0].Ret == nil {
			return failf("c05|calls|"+in.Name, "%s: pass-through command without exactly one answered call; %s", what, describe())
		}
		if !reply.Equal(*calls[0].Ret) {
			return failf("c05|reply|"+in.Name, "%s: handler returned %s, client received %s", what, *calls[0].Ret, reply)
		}
	case cmdspec.ReplyExact:
		if !bytes.Equal(reply.Bytes(), []byte(in.Exact)) {
			return failf("c05|reply|"+in.Name, "%s: client received %s, expected %q; %s", what, reply, in.Exact, describe())
		}
	default:
		if in.IsError != reply.IsError() {
			return failf("c05|reply-kind|"+in.Name, "%s: reply %s, expected error=%v; %s", what, reply, in.IsError, describe())
		}
	}
	if in.Quit && !conn.Closed() {
		return failf("c05|quit-open", "QUIT answered but the connection was not closed")
	}
	return nil
}

// --- unknown commands and application executors

type c05Unknown struct {
	Args []resp.Bin `json:"args"`
}

func evalC05Unknown(c c05Unknown) *Failure {
	srv, rec := newRecServer()
	srv.SetAuthCommandHandler(rec)
	data, _ := encodeReqs([][]resp.Bin{c.Args, {resp.Bin("GET"), resp.Bin("probe")}})
	conn := connsim.NewPreloaded(1, [][]byte{data})
	o := connsim.Serve(srv, conn, serveTimeout())
	what := reqString(c.Args)
	if o.TimedOut {
		return stallFailure("c05|unknown", what)
	}
	if o.Panic != nil {
		return failf("c05|panic|"+panicKey(o)+"|unknown", "%s: panic: %v", what, o.Panic)
	}
	frames, _, err := conn.Frames()
	if err != nil || len(frames) != 2 {
		return failf("c05|unknown|frames", "%s: %d frames, err %v: %q", what, len(frames), err, clip(conn.Out()))
	}
	if !frames[0].IsError() {
		return failf("c05|unknown|not-error", "unknown command %s answered with %s, want an error reply", what, frames[0])
	}
	calls := rec.Snapshot()
	if len(calls) != 1 || calls[0].Method != "Get" || calls[0].Frames != 1 {
		var g []string
		for _, x := range calls {
			g = append(g, callStr(x))
		}
		return failf("c05|unknown|calls", "unknown command %s: recorded calls %v, want only the probe's Get", what, g)
	}
	return nil
}

type c05App struct {
	Name string     `json:"name"` // registered (upper-case) name
	Sent string     `json:"sent"` // name as sent (any case)
	Args []resp.Bin `json:"args"`
	Ret  resp.Value `json:"ret"`
	Err  string     `json:"err,omitempty"`
	DB   int        `json:"db"`
	Warm bool       `json:"warm,omitempty"` // the same request is sent once before the executor is registered
}

func evalC05App(c c05App) *Failure {
	srv, rec := newRecServer()
	var gotConn *redis.Conn
	var gotCmd string
	var gotArgs []string
	var gotDB, n int
	if c.Warm {
		// the same spelling is requested BEFORE the application registers (or replaces) the executor
		pre := append([]resp.Bin{resp.Bin(c.Sent)}, c.Args...)
		data, _ := encodeReqs([][]resp.Bin{pre})
		if o := connsim.Serve(srv, connsim.NewPreloaded(7, [][]byte{data}), serveTimeout()); o.TimedOut || o.Panic != nil {
			return failf("c05|app|warmup", "request before registration: timeout=%v panic=%v", o.TimedOut, o.Panic)
		}
		rec.Reset()
	}
	srv.RegisterExexutor(c.Name, func(conn *redis.Conn, cmd string, args redis.Arguments) (*redis.Message, error) {
		n++
		gotConn, gotCmd, gotDB = conn, cmd, conn.Database()
		for {
			m, _ := args.Next()
			if m == nil {
				break
			}
			b, _ := m.Bytes()
			gotArgs = append(gotArgs, string(b))
		}
		if c.Err != "" {
			return nil, fmt.Errorf("%s", c.Err)
		}
		return doubles.ToMessage(c.Ret), nil
	})
	req := append([]resp.Bin{resp.Bin(c.Sent)}, c.Args...)
	data, _ := encodeReqs([][]resp.Bin{{resp.Bin("SELECT"), resp.Bin(strconv.Itoa(c.DB))}, req})
	conn := connsim.NewPreloaded(1, [][]byte{data})
	o := connsim.Serve(srv, conn, serveTimeout())
	what := reqString(req)
	if o.TimedOut {
		return stallFailure("c05|app", what)
	}
	if o.Panic != nil {
		return failf("c05|panic|"+panicKey(o)+"|app", "%s: panic: %v", what, o.Panic)
	}
	frames, _, err := conn.Frames()
	if err != nil || len(frames) != 2 {
		return failf("c05|app|frames", "%s: %d frames, err %v: %q", what, len(frames), err, clip(conn.Out()))
	}
	if n != 1 {
		return failf("c05|app|dispatch", "application executor %q invoked %d times for %s", c.Name, n, what)
	}
	var want []string
	for _, a := range c.Args {
		want = append(want, string(a))
	}
	if gotCmd != c.Sent || fmt.Sprint(gotArgs) != fmt.Sprint(want) || len(gotArgs) != len(want) || gotDB != c.DB || gotConn == nil || gotConn.Conn != conn {
		return failf("c05|app|args", "application executor %q for %s received cmd=%q args=%q db=%d, want cmd=%q args=%q db=%d", c.Name, what, gotCmd, gotArgs, gotDB, c.Sent, want, c.DB)
	}
	if c.Err != "" {
		if !frames[1].IsError() {
			return failf("c05|app|error", "executor error not turned into an error reply: %s", frames[1])
		}
	} else if !frames[1].Equal(c.Ret) {
		return failf("c05|app|reply", "executor returned %s, client received %s", c.Ret, frames[1])
	}
	if len(rec.Snapshot()) != 0 {
		return failf("c05|app|calls", "handler invoked for an application executor")
	}
	return nil
}

// c05Wide: commands over many keys (MSET, MSETNX, MGET, HMSET, DEL ... with 8..40 keys) with a handler that takes a
// moment per call and fails at one of them: every handler call the command makes happens before the command is answered -
// none is still running, or started, after the reply.
type c05Wide struct {
	Cmd     string `json:"cmd"`
	N       int    `json:"n"`        // keys
	ErrAt   int    `json:"err_at"`   // the handler call (by sequence number) that returns an error; -1: none
	DelayUS int    `json:"delay_us"` // time each handler call takes
}

func evalC05Wide(c c05Wide) *Failure {
	srv, rec := newRecServer()
	var running, late int64
	answered := make(chan struct{})
	rec.ResultFn = func(cl *doubles.Call) doubles.Result {
		atomic.AddInt64(&running, 1)
		defer atomic.AddInt64(&running, -1)
		select {
		case <-answered:
			atomic.AddInt64(&late, 1)
		default:
		}
		time.Sleep(time.Duration(c.DelayUS) * time.Microsecond)
		if cl.Seq == c.ErrAt {
			return doubles.Result{Err: "ERR the store refuses this key"}
		}
		if cl.Method == "Get" {
			return doubles.Result{Nil: false, Val: func() *resp.Value { v := resp.Nil(); return &v }()}
		}
		return doubles.DefaultResult(cl)
	}
	args := []string{c.Cmd}
	if c.Cmd == "HMSET" {
		args = append(args, "h")
	}
	for i := 0; i < c.N; i++ {
		args = append(args, fmt.Sprintf("k%d", i))
		if c.Cmd == "MSET" || c.Cmd == "MSETNX" || c.Cmd == "HMSET" {
			args = append(args, "v")
		}
	}
	conn := connsim.NewGated(1)
	done := connsim.Go(srv, conn)
	conn.Feed(resp.Cmd(args...).Bytes())
	what := fmt.Sprintf("%s over %d keys, every handler call takes %d us, call %d fails", c.Cmd, c.N, c.DelayUS, c.ErrAt)
	if idle, to := conn.WaitIdle(nil, serveTimeout()); !idle || to {
		return stallFailure("c05|wide", what)
	}
	// the command has been answered (the server waits for the next request)
	stillRunning := atomic.LoadInt64(&running)
	close(answered)
	n0 := len(rec.Snapshot())
	time.Sleep(time.Duration(3*c.DelayUS)*time.Microsecond + 5*time.Millisecond)
	n1 := len(rec.Snapshot())
	conn.CloseRead(false)
	select {
	case <-done:
	case <-time.After(serveTimeout()):
		return stallFailure("c05|wide", what)
	}
	if frames, _, _ := conn.Frames(); len(frames) != 1 {
		return failf("c05|reply-count|"+c.Cmd, "%s: %d replies", what, len(frames))
	}
	if stillRunning > 0 || n1 != n0 || atomic.LoadInt64(&late) > 0 {
		return failf("c05|calls-after-reply|"+c.Cmd, "%s: when the command had been answered %d handler calls were still running, %d more were started afterwards", what, stillRunning, n1-n0)
	}
	return nil
}

// c05Order: the handlers are installed in one of the possible orders; AUTH reaches the handler installed with
// SetAuthCommandHandler and data commands the one installed with SetCommandHandler, whatever the order.
type c05Order struct {
	Order []string `json:"order"` // auth | command, in the order of the Set... calls
}

func evalC05Order(c c05Order) *Failure {
	srv := redis.NewServer()
	authRec, cmdRec := doubles.NewRecorder(), doubles.NewRecorder()
	for _, o := range c.Order {
		if o == "auth" {
			srv.SetAuthCommandHandler(authRec)
		} else {
			srv.SetCommandHandler(cmdRec)
		}
	}
	data, _ := encodeReqs([][]resp.Bin{cmd("AUTH", "secret"), cmd("GET", "k"), cmd("AUTH", "user", "secret")})
	conn := connsim.NewPreloaded(1, [][]byte{data})
	o := connsim.Serve(srv, conn, serveTimeout())
	what := fmt.Sprintf("handlers installed in the order %v", c.Order)
	if o.TimedOut {
		return stallFailure("c05|order", what)
	}
	if o.Panic != nil {
		return failf("c05|panic|"+panicKey(o), "%s: panic: %v", what, o.Panic)
	}
	var a, d []string
	for _, cl := range authRec.Snapshot() {
		a = append(a, callStr(cl))
	}
	for _, cl := range cmdRec.Snapshot() {
		d = append(d, callStr(cl))
	}
	if len(a) != 2 || len(d) != 1 {
		return failf("c05|handler-order", "%s: the AUTH handler received %v, the command handler %v; want two AUTH calls on the first and the GET on the second", what, a, d)
	}
	return nil
}

func init() {
	register("c05.order", evalC05Order)
	register("c05.wide", evalC05Wide)
	register("c05.cmd", evalC05)
	register("c05.unknown", evalC05Unknown)
	register("c05.app", evalC05App)
}

// genReplyValue: handler results without CR/LF in line payloads (C04 covers those).
func genReplyValue() *rapid.Generator[resp.Value] {
	return rapid.Custom(func(t *rapid.T) resp.Value {
		switch rapid.IntRange(0, 5).Draw(t, "rk") {
		case 0:
			return resp.S(rapid.StringMatching(`[A-Za-z0-9 :_-]{0,12}`).Draw(t, "s"))
		case 1:
			return resp.I(resp.GenInt64().Draw(t, "i"))
		case 2:
			return resp.Nil()
		case 3:
			return resp.A(resp.BB(resp.GenBulkPayload(16).Draw(t, "e1")), resp.Nil(), resp.I(3))
		case 4:
			return resp.A()
		default:
			return resp.BB(resp.GenBulkPayload(64).Draw(t, "b"))
		}
	})
}

func TestC05(t *testing.T) {
	h := newHarness(t, "C05", "every command of an independent grammar (67 names = all registered executors) x generated well-formed argument vectors (all option combinations and orders, "+
		"binary-safe strings, boundary integers/floats, 1..5 list elements, duplicate keys) x random letter case x optional preceding SELECT x handler result (a message, an error, a message and an error); plus unknown command names, application executors, and commands over 2..40 keys with a handler that takes a moment per call and fails at one of them (no handler call may be running or started once the command is answered). "+
		"Oracle: the recording handler's call log equals the grammar's expected calls (method, canonical arguments, database, connection) and the client receives the handler's result. "+
		"Non-trivial: the vector has an option, >=2 list elements, a duplicate key, a binary argument or mixed-case names. Distinct = distinct request bytes (+ scripted handler mode).")
	defer h.Finish()
	h.Probes()

	// coverage assertion: every registered executor is in the grammar
	srv, _ := newRecServer()
	var uncovered []string
	for _, n := range srv.VerifCommandNames() {
		if !cmdspec.Has(n) {
			uncovered = append(uncovered, n)
		}
	}
	h.Col.Note("registered_commands", len(srv.VerifCommandNames()))
	h.Col.Note("uncovered_registered_commands", fmt.Sprint(uncovered))

	names := cmdspec.SortedNames()
	perCmd := h.N(600, 20000)
	for _, name := range names {
		name := name
		if name == "ZADD" && h.Avoid("zadd-all") {
			continue
		}
		h.Rapid("cmd-"+name, perCmd, func(rt *rapid.T) {
			g := &cmdspec.G{T: rt, Avoid: h.Avoid}
			in := g.Gen(name)
			c := c05Case{Inst: *in, Args: binArgs(in.Args)}
			if name != "SELECT" && name != "QUIT" && rapid.IntRange(0, 3).Draw(rt, "presel") == 0 {
				n := rapid.IntRange(0, 15).Draw(rt, "seldb")
				c.PreSelect = &n
			}
			c.Tracer = rapid.IntRange(0, 3).Draw(rt, "tracer") == 0
			if in.Reply == cmdspec.ReplyPassThrough {
				c.Ret = rapid.SampledFrom([]string{"", "", "", "", "", "error", "both"}).Draw(rt, "ret")
			}
			canon, _ := encodeReqs([][]resp.Bin{c.Args})
			canon = append(canon, []byte(fmt.Sprint(in.GetMode, in.GetValue, c.IntAsInteger, c.Ret, c.Tracer))...)
			classes := []string{"cmd:" + name}
			for _, f := range in.Features {
				classes = append(classes, "feature:"+f)
			}
			if c.IntAsInteger {
				classes = append(classes, "integer-typed-arguments")
			}
			if c.Ret != "" {
				classes = append(classes, "handler-returns-"+c.Ret)
			}
			h.Col.Case(len(in.Features) > 0, canon, classes...)
			if h.Col.WantSample() {
				h.Col.Sample(map[string]any{"request": reqString(c.Args), "expected_calls": in.Calls, "reply": in.Reply})
			}
			h.Fail(rt, "c05.cmd", c, evalC05(c))
		})
	}

	if h.Shard == 0 {
		for _, order := range [][]string{{"auth", "command"}, {"command", "auth"}, {"auth", "command", "auth"}, {"command", "auth", "command"}} {
			c := c05Order{Order: order}
			h.Col.Case(true, []byte(fmt.Sprint("order", order)), "handler-installation-order")
			h.Report("c05.order", c, evalC05Order(c))
		}
	}

	h.Rapid("wide", h.N(80, 3000), func(rt *rapid.T) {
		c := c05Wide{Cmd: rapid.SampledFrom([]string{"MSET", "MSETNX", "MGET", "HMSET", "DEL", "EXISTS"}).Draw(rt, "cmd"), N: rapid.SampledFrom([]int{2, 7, 8, 9, 16, 40}).Draw(rt, "n"),
			DelayUS: rapid.SampledFrom([]int{0, 200, 1000}).Draw(rt, "delay")}
		c.ErrAt = rapid.IntRange(-1, c.N).Draw(rt, "errat")
		h.Col.Case(c.N >= 8 && c.ErrAt >= 0, []byte(fmt.Sprint("wide", c)), "wide:"+c.Cmd)
		h.Fail(rt, "c05.wide", c, evalC05Wide(c))
	})

	h.Rapid("unknown", h.N(2000, 100000), func(rt *rapid.T) {
		var name string
		for {
			name = string(resp.GenBulkPayload(12).Draw(rt, "name"))
			if !cmdspec.Has(strings.ToUpper(name)) {
				break
			}
		}
		g := &cmdspec.G{T: rt}
		c := c05Unknown{Args: []resp.Bin{resp.Bin(name)}}
		for i, n := 0, rapid.IntRange(0, 3).Draw(rt, "nargs"); i < n; i++ {
			c.Args = append(c.Args, resp.Bin(g.Str()))
		}
		canon, _ := encodeReqs([][]resp.Bin{c.Args})
		h.Col.Case(len(c.Args) > 1 || len(name) == 0, canon, "unknown-command")
		h.Fail(rt, "c05.unknown", c, evalC05Unknown(c))
	})

	h.Rapid("app-executors", h.N(2000, 100000), func(rt *rapid.T) {
		name := rapid.StringMatching(`[A-Z][A-Z0-9._]{1,10}`).Draw(rt, "appname")
		if rapid.IntRange(0, 3).Draw(rt, "longname") == 0 {
			// names longer than any built-in command name, single characters, names with punctuation
			name = rapid.SampledFrom([]string{"APP.SESSION.TOUCH", "MODULE.VERY_LONG_COMMAND_NAME.V2", "X", "A-B", "ZREVRANGEBYSCOREX", "CLUSTER.SLOTS.REBALANCE.NOW.PLEASE.1234567890"}).Draw(rt, "longappname")
		}
		if cmdspec.Has(name) {
			name = "X" + name
		}
		g := &cmdspec.G{T: rt}
		if rapid.IntRange(0, 4).Draw(rt, "override") == 0 {
			name = rapid.SampledFrom([]string{"GET", "PING", "HKEYS", "ZADD"}).Draw(rt, "builtin") // the application replaces a built-in executor
		}
		c := c05App{Name: name, Sent: g.Casing(name), DB: rapid.IntRange(0, 15).Draw(rt, "db"), Ret: genReplyValue().Draw(rt, "ret"), Warm: rapid.Bool().Draw(rt, "warm")}
		if rapid.IntRange(0, 4).Draw(rt, "err") == 0 {
			c.Err = "ERR " + rapid.StringMatching(`[a-z ]{0,10}`).Draw(rt, "errtext")
		}
		for i, n := 0, rapid.IntRange(0, 4).Draw(rt, "nargs"); i < n; i++ {
			c.Args = append(c.Args, resp.Bin(g.Str()))
		}
		canon, _ := encodeReqs([][]resp.Bin{append([]resp.Bin{resp.Bin(c.Sent)}, c.Args...)})
		h.Col.Case(len(c.Args) > 0 || c.Sent != c.Name, canon, "app-executor")
		h.Fail(rt, "c05.app", c, evalC05App(c))
	})
	_ = sort.Strings
}

// callStrNoTime renders a call without wall-clock dependent arguments (EXPIRE's instant).
func callStrNoTime(c doubles.Call) string {
	if c.Method == "Expire" && len(c.Args) == 3 {
		return c.Method + "(" + strconv.Quote(c.Args[0]) + ", <instant>, " + strconv.Quote(c.Args[2]) + ")"
	}
	return callStr(c)
}
