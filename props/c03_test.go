package props

import (
	"crypto/tls"
	"fmt"
	"net"
	"strconv"
	"strings"
	"testing"
	"time"

	"pgregory.net/rapid"

	"verif/internal/connsim"
	"verif/internal/resp"
)

func strconvQuote(s string) string { return strconv.Quote(s) }

// ---- C03: exactly one reply per request, in order, without needing more input ----

// commands whose reply is the handler's result unchanged (used to tie reply i to request i)
var passThroughNames = map[string]bool{}

func init() {
	for _, n := range []string{"DEL", "EXISTS", "EXPIRE", "EXPIREAT", "KEYS", "TYPE", "TTL", "RENAME", "RENAMENX", "SCAN", "GET", "SET", "SETEX", "SETNX", "GETSET",
		"HSET", "HSETNX", "HGET", "HGETALL", "HDEL", "LPUSH", "RPUSH", "LPUSHX", "RPUSHX", "LPOP", "RPOP", "LRANGE", "LINDEX", "LLEN", "SADD", "SREM", "SMEMBERS",
		"ZADD", "ZINCRBY", "ZSCORE", "ZREM", "ZRANGE", "ZRANGEBYSCORE"} {
		passThroughNames[n] = true
	}
	register("c03.pipe", evalC03)
	register("c03.child", evalC03Child)
}

func evalC03(c pipeCase) *Failure {
	srv, rec := newRecServer()
	srv.SetAuthCommandHandler(rec)
	rec.ResultFn = c.resultFn()
	vals := c.values()
	data, ends := resp.EncodeAll(vals)
	conn := connsim.NewPreloaded(1, connsim.Chunks(data, c.Sizes))
	// number of requests up to and including the first QUIT
	nExpected := len(vals)
	quitIdx := -1
	for i := range vals {
		if c.cmdName(i) == "QUIT" {
			quitIdx = i
			nExpected = i + 1
			break
		}
	}
	var blockFail *Failure
	decodedUpTo, nframes := 0, 0
	conn.OnBlock = func(delivered int, out []byte) {
		if blockFail != nil {
			return
		}
		// requests fully delivered so far
		k := 0
		for k < len(ends) && ends[k] <= delivered {
			k++
		}
		if k > nExpected {
			k = nExpected
		}
		// count complete reply frames incrementally (outputs can be large)
		for decodedUpTo < len(out) {
			_, n, err := resp.Decode(out[decodedUpTo:])
			if err != nil {
				break
			}
			decodedUpTo += n
			nframes++
		}
		if nframes < k {
			blockFail = failf("c03|reply-late", "the server asked for more input after %d bytes (requests fully delivered: %d) having written only %d complete replies; requests %v chunks %v",
				delivered, k, nframes, c.strings(), c.Sizes)
		}
	}
	o := connsim.Serve(srv, conn, serveTimeout())
	what := fmt.Sprintf("pipeline %v chunks %v", c.strings(), c.Sizes)
	if o.TimedOut {
		return stallFailure("c03", what)
	}
	if o.Panic != nil {
		return failf("c03|panic|"+panicKey(o), "%s: panic: %v", what, o.Panic)
	}
	frames, _, err := conn.Frames()
	if err != nil {
		return failf("c03|frames", "%s: reply stream not well-formed (%v): %q", what, err, clip(conn.Out()))
	}
	if len(frames) != nExpected {
		return failf("c03|reply-count", "%s: %d replies for %d requests (up to the first QUIT): %q", what, len(frames), nExpected, clip(conn.Out()))
	}
	if blockFail != nil {
		return blockFail
	}
	calls := rec.Snapshot()
	byReq := map[int][]int{}
	for i, cl := range calls {
		byReq[cl.Frames] = append(byReq[cl.Frames], i)
		if cl.Frames >= nExpected {
			return failf("c03|after-quit", "%s: handler call %s made after QUIT", what, callStr(cl))
		}
	}
	for i := 0; i < nExpected; i++ {
		name := c.cmdName(i)
		idx := byReq[i]
		if passThroughNames[name] {
			switch {
			case len(idx) == 0:
				if !frames[i].IsError() {
					return failf("c03|order", "%s: request %d (%s) reached no handler but was answered with %s", what, i, name, frames[i])
				}
			case len(idx) == 1:
				cl := calls[idx[0]]
				if cl.RetErr != "" {
					if !frames[i].IsError() {
						return failf("c03|handler-error", "%s: request %d (%s): the handler returned an error, the reply is %s", what, i, name, frames[i])
					}
				} else if cl.Ret == nil {
					if !frames[i].IsError() {
						return failf("c03|handler-nil", "%s: request %d (%s): the handler returned nothing, the reply is %s (want an error reply)", what, i, name, frames[i])
					}
				} else if !frames[i].Equal(*cl.Ret) {
					return failf("c03|order", "%s: reply %d is %s but the handler call made for request %d returned %s", what, i, frames[i], i, *cl.Ret)
				}
			}
		}
		switch name {
		case "ECHO":
			if len(c.Reqs[i]) == 2 && c.Reqs[i][1] != nil && !frames[i].Equal(resp.BB(*c.Reqs[i][1])) {
				return failf("c03|order", "%s: reply %d to ECHO is %s", what, i, frames[i])
			}
		case "QUIT":
			if !frames[i].Equal(resp.S("OK")) {
				return failf("c03|quit-reply", "%s: reply to QUIT is %s", what, frames[i])
			}
		}
	}
	if quitIdx >= 0 && !conn.Closed() {
		return failf("c03|quit-open", "%s: the connection was not closed after QUIT", what)
	}
	// whatever this connection did, the next connection to the same server gets its replies
	next := connsim.NewPreloaded(2, [][]byte{resp.Cmd("PING").Bytes()})
	if o2 := connsim.Serve(srv, next, serveTimeout()); o2.TimedOut {
		return stallFailure("c03|next-connection", what+": a following connection to the same server")
	} else if o2.Panic != nil {
		return failf("c03|panic|"+panicKey(o2), "%s: panic on a following connection: %v", what, o2.Panic)
	}
	if fr, _, _ := next.Frames(); len(fr) != 1 || !fr[0].Equal(resp.S("PONG")) {
		return failf("c03|next-connection", "%s: a following connection to the same server got %v for PING", what, fr)
	}
	if conn.Closes() == 0 {
		return failf("c03|not-closed", "%s: the connection loop returned without closing the connection", what)
	}
	return nil
}

// c03Child: requests with extreme count-like arguments against the example server as a separate process;
// every request must be answered (a request that never returns can be killed with the process).
type c03Child struct {
	Reqs [][]string `json:"reqs"`
}

func evalC03Child(c c03Child) *Failure {
	cs, err := startChildServer(8 << 30)
	if err != nil {
		return failf("harness|child", "%v", err)
	}
	defer cs.stop()
	conn, err := cs.dial()
	if err != nil {
		return failf("harness|dial", "%v", err)
	}
	defer conn.Close()
	for _, s := range c07Setup {
		if _, err := roundTrip(conn, resp.Cmd(s...).Bytes(), 5*time.Second); err != nil {
			return failf("harness|setup", "%v", err)
		}
	}
	for i, r := range c.Reqs {
		if _, err := roundTrip(conn, resp.Cmd(r...).Bytes(), 10*time.Second); err != nil {
			if !cs.alive() {
				return failf("c03|child|process-died", "request %d %v: the server process died: %s", i, r, firstLines(cs.stderr.String(), 3))
			}
			return failf("c03|child|no-reply", "request %d %v was not answered within 10s (%v): the connection stalls or spins", i, r, err)
		}
	}
	return nil
}

var c03Extreme = [][]string{{"LPOP", "list", "9223372036854775807"}, {"RPOP", "list", "9223372036854775807"}, {"LRANGE", "list", "0", "9223372036854775807"},
	{"LRANGE", "list", "-9223372036854775808", "9223372036854775807"}, {"ZRANGE", "zset", "0", "9223372036854775807"}, {"ZRANGE", "zset", "-9223372036854775808", "9223372036854775807", "REV"},
	{"ZREVRANGE", "zset", "-9223372036854775808", "9223372036854775807"}, {"ZRANGEBYSCORE", "zset", "-inf", "+inf", "LIMIT", "0", "9223372036854775807"}, {"LINDEX", "list", "-9223372036854775808"},
	{"GETRANGE", "str", "-9223372036854775808", "9223372036854775807"}, {"SCAN", "0", "COUNT", "9223372036854775807"}, {"ZADD", "zset", "NX", "CH", "1", "m"}, {"ZADD", "zset", "XX", "GT", "INCR", "1", "a"},
	{"SETEX", "str", "9223372036854775807", "v"}, {"EXPIRE", "str", "-9223372036854775808"}, {"DECRBY", "num", "-9223372036854775808"}, {"SELECT", "9223372036854775807"}}

// c03Idle: a connection (plain TCP or TLS, real listeners) that sends a request, stays idle for a while and sends
// another one: both requests get their reply.
type c03Idle struct {
	Seconds int  `json:"seconds"`
	TLS     bool `json:"tls"`
}

func evalC03Idle(c c03Idle) *Failure {
	pk := sharedPKI()
	srv, _ := newRecServer()
	srv.ServerCert, srv.ServerKey, srv.CACerts = pk.Server.CertPEM, pk.Server.KeyPEM, pk.Root.CertPEM
	port, tlsPort, err := startOnFreePorts(srv, true)
	if err != nil {
		return failf("harness|start", "Start: %v", err)
	}
	defer srv.Stop()
	what := fmt.Sprintf("connection (tls=%v) idle for %d s between two requests", c.TLS, c.Seconds)
	var conn net.Conn
	if c.TLS {
		conn, err = tls.DialWithDialer(&net.Dialer{Timeout: 10 * time.Second}, "tcp", fmt.Sprintf("127.0.0.1:%d", tlsPort), pk.ClientConfig(pk.Client("verif-client", pk.Root, false)))
	} else {
		conn, err = net.DialTimeout("tcp", fmt.Sprintf("127.0.0.1:%d", port), 10*time.Second)
	}
	if err != nil {
		return failf("harness|dial", "%s: %v", what, err)
	}
	defer conn.Close()
	if v, err := roundTrip(conn, resp.Cmd("PING").Bytes(), 10*time.Second); err != nil || !v.Equal(resp.S("PONG")) {
		return failf("harness|first-ping", "%s: first PING answered %v, %v", what, v, err)
	}
	time.Sleep(time.Duration(c.Seconds) * time.Second)
	for i, req := range [][]string{{"PING"}, {"ECHO", "still-here"}} {
		v, err := roundTrip(conn, resp.Cmd(req...).Bytes(), 15*time.Second)
		if err != nil {
			return failf("c03|idle-connection|no-reply", "%s: request %v after the idle period got no reply: %v", what, req, err)
		}
		want := resp.S("PONG")
		if i == 1 {
			want = resp.B("still-here")
		}
		if !sameText(v, want) {
			return failf("c03|idle-connection|reply", "%s: request %v after the idle period answered %s", what, req, v)
		}
	}
	return nil
}

// c03Volume: one connection that carries a large volume of requests (N requests with an argument of ArgLen bytes each,
// every reply read before the next request): every request is answered, whatever the connection has carried before.
type c03Volume struct {
	N      int `json:"n"`
	ArgLen int `json:"arg_len"`
}

func evalC03Volume(c c03Volume) *Failure {
	srv, _ := newRecServer()
	m, err := connsim.NewMulti(srv, 1, serveTimeout())
	if err != nil {
		return failf("harness|multi", "%v", err)
	}
	defer m.CloseAll()
	what := fmt.Sprintf("%d requests with an argument of %d bytes each on one connection (%d MiB in total)", c.N, c.ArgLen, c.N*c.ArgLen>>20)
	req := resp.Cmd("SET", "k", strings.Repeat("v", c.ArgLen)).Bytes()
	for i := 0; i < c.N; i++ {
		frames, alive, err := m.Step(0, req)
		if err != nil {
			return stallFailure("c03|volume", fmt.Sprintf("%s: request %d", what, i))
		}
		if !alive || len(frames) != 1 || frames[0].IsError() {
			return failf("c03|volume|reply", "%s: request %d (after %d MiB) got %d replies %v, connection alive: %v", what, i, i*c.ArgLen>>20, len(frames), frames, alive)
		}
	}
	frames, alive, err := m.Step(0, resp.Cmd("PING").Bytes())
	if err != nil || !alive || len(frames) != 1 || !frames[0].Equal(resp.S("PONG")) {
		return failf("c03|volume|reply", "%s: the PING after them got %v (alive %v, %v)", what, frames, alive, err)
	}
	return nil
}

// evalC03Slow: while one connection reads its reply late, the fully received requests of another connection are
// answered (the c04 slow-reader scenario, judged for liveness).
func evalC03Slow(c c04Slow) *Failure {
	f := evalC04Slow(c)
	if f != nil && strings.HasSuffix(f.Key, "|stall") {
		return failf("c03|stall|behind-a-slow-reader", "%s", f.Detail)
	}
	return nil
}

// evalC03TCP: a real TCP client pipelines requests with large replies and QUIT (or a partial request and a half-close)
// and reads late: every reply arrives complete, in order (the c11 scenario, judged for "exactly one reply per request").
func evalC03TCP(c c11TCP) *Failure {
	f := evalC11TCP(c)
	if f == nil || strings.HasPrefix(f.Key, "harness|") {
		return f
	}
	return failf("c03|reply-count|tcp", "%s", f.Detail)
}

func init() {
	register("c03.tcp", evalC03TCP)
	register("c03.idle", evalC03Idle)
	register("c03.volume", evalC03Volume)
	register("c03.slow", evalC03Slow)
}

func TestC03(t *testing.T) {
	h := newHarness(t, "C03", "pipelines of 1..12 requests drawn from every registered command (well-formed from the grammar with all option flags, ill-formed table entries, surplus arguments, unknown names; QUIT at a random position in 20%) "+
		"x chunkings of the byte stream (whole, per request, per byte, random k-way biased to length prefixes and CR|LF) x scripted handler errors. Oracle: strict decoder splits the output into exactly one frame per request up to the first QUIT; "+
		"reply i is tied to request i through the handler call made while i frames were complete; at every moment the server asks for undelivered bytes it has answered every fully delivered request; watchdog for stalls; QUIT semantics. Two connections on real listeners (plain, TLS) stay idle for 12 s (thorough: also 75 s) between two requests and must still be answered. One connection carries more than a gigabyte of requests (36 x 32 MiB) and must still be answered; a peer's requests are answered while another connection reads its reply late. "+
		"Non-trivial: >=3 requests and (a chunk boundary inside the stream, QUIT not last, an option-bearing command, or a handler error). Distinct = distinct (stream, chunking, script).")
	defer h.Finish()
	h.Probes()

	if h.Shard == 0 {
		// each extreme request alone (so that a stall is attributed), then all in one pipeline
		for _, r := range c03Extreme {
			c := c03Child{Reqs: [][]string{r}}
			h.Col.Case(true, []byte(fmt.Sprint("child", r)), "child-extreme-count")
			if !h.Thorough() {
				break // quick: only the combined run below
			}
			if !h.Report("c03.child", c, evalC03Child(c)) {
				break
			}
		}
		all := c03Child{Reqs: c03Extreme}
		h.Col.Case(true, []byte("child-all"), "child-extreme-count")
		h.Report("c03.child", all, evalC03Child(all))
	}

	// connections that stay idle between two requests, in the background while the rest runs
	type idleRes struct {
		c c03Idle
		f *Failure
	}
	var idle []chan idleRes
	if h.Shard == 0 {
		cases := []c03Idle{{Seconds: 12, TLS: true}, {Seconds: 12, TLS: false}}
		if h.Thorough() {
			cases = append(cases, c03Idle{Seconds: 75, TLS: true}, c03Idle{Seconds: 75, TLS: false})
		}
		for _, c := range cases {
			ch := make(chan idleRes, 1)
			idle = append(idle, ch)
			go func(c c03Idle) { ch <- idleRes{c, evalC03Idle(c)} }(c)
		}
	}
	defer func() {
		for _, ch := range idle {
			r := <-ch
			h.Col.Case(true, []byte(fmt.Sprint("idle", r.c)), "idle-connection")
			h.Report("c03.idle", r.c, r.f)
		}
	}()

	if h.Shard == h.NShards-1 {
		// more than a gigabyte of requests through one connection
		for _, c := range []c03Volume{{N: 36, ArgLen: 32 << 20}, {N: 3000, ArgLen: 100}} {
			h.Col.Case(true, []byte(fmt.Sprint("volume", c)), "connection-volume")
			h.Report("c03.volume", c, evalC03Volume(c))
		}
		// real TCP through the accept loop: megabytes of replies read late, the pipeline ends with QUIT / with a half-close
		for _, c := range []c11TCP{{N: 16, ReplyLen: 1 << 20, DelayMS: 300, Quit: true}, {N: 16, ReplyLen: 1 << 20, DelayMS: 300}} {
			h.Col.Case(true, []byte(fmt.Sprint("tcp", c)), "tcp-late-reader")
			h.Report("c03.tcp", c, evalC03TCP(c))
		}
		// a peer's request while another connection reads its reply late
		for _, c := range []c04Slow{{Handler: "example", Stream: []resp.Value{resp.Cmd("PING")}, Peer: [][]string{{"PING"}, {"ECHO", "x"}}},
			{Handler: "recorder", Stream: []resp.Value{resp.Cmd("GET", "k"), resp.Cmd("ECHO", strings.Repeat("A", 70000))}, Peer: [][]string{{"GET", "k"}}}} {
			h.Col.Case(true, []byte(fmt.Sprint("slow", c.Handler, len(c.Stream))), "peer-behind-slow-reader")
			h.Report("c03.slow", c, evalC03Slow(c))
		}
	}

	h.Rapid("pipelines", h.N(30000, 400000), func(rt *rapid.T) {
		c, labels := genPipeline(rt, h.Avoid, 12, false)
		data, _ := resp.EncodeAll(c.values())
		nt := len(c.Reqs) >= 3 && (len(c.Sizes) > 0 || labels["quit-not-last"] || labels["option-bearing"] || labels["handler-error"])
		var cl []string
		for l := range labels {
			cl = append(cl, l)
		}
		canon := append(append([]byte{}, data...), []byte(fmt.Sprint(c.Sizes, c.ErrCalls, c.ErrKinds, c.NilCalls, c.NilKinds, c.GetMode))...)
		h.Col.Case(nt, canon, cl...)
		if h.Col.WantSample() {
			h.Col.Sample(map[string]any{"requests": c.strings(), "chunk_sizes": c.Sizes, "handler_error_calls": c.ErrCalls})
		}
		h.Fail(rt, "c03.pipe", c, evalC03(c))
	})
}
