package props

import (
	"fmt"
	"testing"

	"github.com/cybergarage/go-redis/redis/proto"
	"pgregory.net/rapid"

	"verif/internal/resp"
)

// ---- C02: parsing does not depend on chunking ----

type c02Case struct {
	Values []resp.Value `json:"values"`
	Sizes  []int        `json:"sizes"` // chunk sizes; the remainder is the last chunk
}

// evalC02 parses the stream through a chunking reader and checks values, exact
// consumption after each value, and the clean end of stream.
func evalC02(c c02Case) (fl *Failure) {
	data, ends := resp.EncodeAll(c.Values)
	r := resp.NewChunkReader(data, c.Sizes)
	r.Limit = 1000000 + 1000*len(data)
	defer func() {
		if rec := recover(); rec != nil {
			if sl, ok := rec.(resp.StepLimit); ok {
				fl = failf("c02|steps", "more than %d reads for a %d-byte stream", sl.Reads, len(data))
				return
			}
			fl = failf("c02|panic", "panic: %v", rec)
		}
	}()
	p := proto.NewParserWithReader(r)
	for i, want := range c.Values {
		m, err := p.Next()
		if err != nil {
			return failf("c02|error", "value %d of %d (chunks %v): parser error %v", i, len(c.Values), c.Sizes, err)
		}
		if m == nil {
			return failf("c02|early-eos", "value %d of %d (chunks %v): end of stream reported early, consumed %d of %d", i, len(c.Values), c.Sizes, r.Consumed(), len(data))
		}
		got, err := fromMsg(m)
		if err != nil {
			return failf("c02|shape", "value %d (chunks %v): %v", i, c.Sizes, err)
		}
		if !got.Equal(want) {
			return failf("c02|value", "value %d (chunks %v): got %s want %s", i, c.Sizes, got, want)
		}
		if r.Consumed() != ends[i] {
			return failf("c02|consumed", "after value %d (chunks %v) the parser has consumed %d bytes, the value ends at %d", i, c.Sizes, r.Consumed(), ends[i])
		}
	}
	m, err := p.Next()
	if m != nil || err != nil {
		return failf("c02|tail", "after the last value (chunks %v) the parser returned (%v, %v), want end of stream", c.Sizes, m, err)
	}
	return nil
}

func c02Classes(data []byte, sizes []int, nvals int) (nontrivial bool, classes []string) {
	if len(sizes) == 0 {
		return false, []string{"single-chunk"}
	}
	inPrefix, betweenCRLF, _ := resp.InterestingCuts(data)
	pre := map[int]bool{}
	for _, x := range inPrefix {
		pre[x] = true
	}
	crlf := map[int]bool{}
	for _, x := range betweenCRLF {
		crlf[x] = true
	}
	off := 0
	hit := map[string]bool{}
	for _, s := range sizes {
		off += s
		if off >= len(data) {
			break
		}
		switch {
		case pre[off]:
			hit["cut-in-length-prefix"] = true
		case crlf[off]:
			hit["cut-between-CR-LF"] = true
		default:
			hit["cut-in-payload-or-boundary"] = true
		}
	}
	for k := range hit {
		classes = append(classes, k)
	}
	nontrivial = nvals >= 2 && (hit["cut-in-length-prefix"] || hit["cut-between-CR-LF"] || hit["cut-in-payload-or-boundary"])
	return
}

func init() { register("c02.stream", evalC02) }

func TestC02(t *testing.T) {
	h := newHarness(t, "C02", "sequences of 1..8 value trees (as C01, bulks to 64KiB) concatenated and delivered through a chunking reader: every 2-way split point "+
		"(all of them for streams <= 400 bytes, all length-prefix/CR-LF cuts plus 64 sampled otherwise), all-1-byte delivery, and random k-way partitions biased to length prefixes and CR|LF. "+
		"Oracle: i-th Next() equals i-th value, bytes consumed after it equal the value's end offset exactly, then (nil,nil). "+
		"Non-trivial: >=2 values and a chunk boundary strictly inside the stream. Distinct = distinct (stream, partition).")
	defer h.Finish()
	h.Probes()

	gen := resp.GenOpts{MaxBulk: 65536, MaxArity: 6, MaxDepth: 3}
	small := resp.GenOpts{MaxBulk: 48, MaxArity: 4, MaxDepth: 3}

	run := func(rt *rapid.T, c c02Case, data []byte, extra string) {
		nt, classes := c02Classes(data, c.Sizes, len(c.Values))
		canon := append(append([]byte{}, data...), []byte(fmt.Sprint(c.Sizes))...)
		h.Col.Case(nt, canon, append(classes, extra)...)
		if h.Col.WantSample() {
			vs := []string{}
			for _, v := range c.Values {
				vs = append(vs, v.String())
			}
			h.Col.Sample(map[string]any{"values": vs, "chunk_sizes": c.Sizes, "stream_len": len(data), "mode": extra})
		}
		h.Fail(rt, "c02.stream", c, evalC02(c))
	}

	// every 2-way split point + all-1-byte
	h.Rapid("splits", h.N(500, 5000), func(rt *rapid.T) {
		o := small
		if rapid.IntRange(0, 9).Draw(rt, "big") == 0 {
			o = gen
		}
		n := rapid.IntRange(1, 8).Draw(rt, "n")
		c := c02Case{}
		for i := 0; i < n; i++ {
			c.Values = append(c.Values, resp.GenValue(o).Draw(rt, "v"))
		}
		data, _ := resp.EncodeAll(c.Values)
		if len(data) < 2 {
			return
		}
		var cuts []int
		if len(data) <= 400 {
			for i := 1; i < len(data); i++ {
				cuts = append(cuts, i)
			}
		} else {
			a, b, _ := resp.InterestingCuts(data)
			cuts = append(cuts, a...)
			cuts = append(cuts, b...)
			if len(cuts) > 600 {
				cuts = cuts[:600]
			}
			for i := 0; i < 64; i++ {
				cuts = append(cuts, rapid.IntRange(1, len(data)-1).Draw(rt, "cut"))
			}
		}
		for _, cut := range cuts {
			cc := c
			cc.Sizes = []int{cut}
			run(rt, cc, data, "two-way-split")
		}
		if len(data) <= 20000 {
			cc := c
			cc.Sizes = make([]int, len(data))
			for i := range cc.Sizes {
				cc.Sizes[i] = 1
			}
			cc.Sizes = cc.Sizes[:len(data)-1]
			run(rt, cc, data, "one-byte-reads")
		}
	})

	// random k-way partitions
	h.Rapid("partitions", h.N(8000, 100000), func(rt *rapid.T) {
		o := small
		if rapid.IntRange(0, 5).Draw(rt, "big") == 0 {
			o = gen
		}
		n := rapid.IntRange(1, 8).Draw(rt, "n")
		c := c02Case{}
		for i := 0; i < n; i++ {
			c.Values = append(c.Values, resp.GenValue(o).Draw(rt, "v"))
		}
		data, _ := resp.EncodeAll(c.Values)
		c.Sizes = resp.GenSizes(data).Draw(rt, "sizes")
		if len(c.Sizes) > 3000 {
			c.Sizes = c.Sizes[:3000]
		}
		run(rt, c, data, "k-way")
	})
}
