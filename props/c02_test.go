package props

import (
	"bytes"
	"fmt"
	"testing"

	"verif/internal/connsim"

	"github.com/cybergarage/go-redis/redis/proto"
	"pgregory.net/rapid"

	"verif/internal/resp"
)

// ---- C02: parsing does not depend on chunking ----

type c02Case struct {
	Values []resp.Value `json:"values"`
	Sizes  []int        `json:"sizes"` // chunk sizes; the remainder is the last chunk
	// EOFWithLast: the transport hands out the last bytes together with io.EOF instead of reporting EOF on a read of its own
	EOFWithLast bool `json:"eof_with_last,omitempty"`
}

// evalC02 parses the stream through a chunking reader and checks values, exact
// consumption after each value, and the clean end of stream.
func evalC02(c c02Case) (fl *Failure) {
	data, ends := resp.EncodeAll(c.Values)
	r := resp.NewChunkReader(data, c.Sizes)
	r.EOFWithData = c.EOFWithLast
	r.Limit = 1000000 + 1000*len(data)
	defer func() {
		if rec := recover(); rec != nil {
			if sl, ok := rec.(resp.StepLimit); ok {
				fl = failf("c02|steps", "more than %d reads for a %d-byte stream", sl.Reads, len(data))
				return
			}
			fl = failf("c02|panic", "panic: %v", rec)
		}
	}()
	p := proto.NewParserWithReader(r)
	for i, want := range c.Values {
		m, err := p.Next()
		if err != nil {
			return failf("c02|error", "value %d of %d (chunks %v): parser error %v", i, len(c.Values), c.Sizes, err)
		}
		if m == nil {
			return failf("c02|early-eos", "value %d of %d (chunks %v): end of stream reported early, consumed %d of %d", i, len(c.Values), c.Sizes, r.Consumed(), len(data))
		}
		got, err := fromMsg(m)
		if err != nil {
			return failf("c02|shape", "value %d (chunks %v): %v", i, c.Sizes, err)
		}
		if !got.Equal(want) {
			return failf("c02|value", "value %d (chunks %v): got %s want %s", i, c.Sizes, got, want)
		}
		if r.Consumed() != ends[i] {
			return failf("c02|consumed", "after value %d (chunks %v) the parser has consumed %d bytes, the value ends at %d", i, c.Sizes, r.Consumed(), ends[i])
		}
	}
	m, err := p.Next()
	if m != nil || err != nil {
		return failf("c02|tail", "after the last value (chunks %v) the parser returned (%v, %v), want end of stream", c.Sizes, m, err)
	}
	return nil
}

// evalC02Buffer: the stream arrives in a bytes.Buffer that is refilled value by value (Write before every Next);
// the values returned earlier are compared at the END: what the parser has handed out must not change when the
// buffer it read from is written to again.
func evalC02Buffer(c c02Case) (fl *Failure) {
	defer func() {
		if rec := recover(); rec != nil {
			fl = failf("c02|panic", "panic: %v", rec)
		}
	}()
	var buf bytes.Buffer
	p := proto.NewParserWithReader(&buf)
	var msgs []*proto.Message
	for i, v := range c.Values {
		buf.Write(v.Bytes())
		m, err := p.Next()
		if err != nil || m == nil {
			return failf("c02|buffer|error", "value %d of %d written to a bytes.Buffer: Next() = (%v, %v)", i, len(c.Values), m, err)
		}
		msgs = append(msgs, m)
	}
	for i, want := range c.Values {
		got, err := fromMsg(msgs[i])
		if err != nil || !got.Equal(want) {
			return failf("c02|buffer|value-changed", "value %d, parsed from a bytes.Buffer that was written to again afterwards, now reads %s (%v), it was sent as %s", i, got, err, want)
		}
	}
	return nil
}

func c02Classes(data []byte, sizes []int, nvals int) (nontrivial bool, classes []string) {
	if len(sizes) == 0 {
		return false, []string{"single-chunk"}
	}
	inPrefix, betweenCRLF, _ := resp.InterestingCuts(data)
	pre := map[int]bool{}
	for _, x := range inPrefix {
		pre[x] = true
	}
	crlf := map[int]bool{}
	for _, x := range betweenCRLF {
		crlf[x] = true
	}
	off := 0
	hit := map[string]bool{}
	for _, s := range sizes {
		off += s
		if off >= len(data) {
			break
		}
		switch {
		case pre[off]:
			hit["cut-in-length-prefix"] = true
		case crlf[off]:
			hit["cut-between-CR-LF"] = true
		default:
			hit["cut-in-payload-or-boundary"] = true
		}
	}
	for k := range hit {
		classes = append(classes, k)
	}
	nontrivial = nvals >= 2 && (hit["cut-in-length-prefix"] || hit["cut-between-CR-LF"] || hit["cut-in-payload-or-boundary"])
	return
}

// c02Server: the same independence of chunking, through the server's own connection path (the parser reads
// through whatever the connection loop wraps the transport in): ECHO of generated payloads, pipelined, chunked.
type c02Server struct {
	Payloads []resp.Bin `json:"-"`
	Lens     []int      `json:"lens"` // payload i = Fill[i] repeated Lens[i] times (kept short in the replay file)
	Fill     []byte     `json:"fill"`
	Sizes    []int      `json:"sizes"` // chunk sizes of the request stream
}

func (c c02Server) payload(i int) []byte {
	out := make([]byte, c.Lens[i])
	for j := range out {
		out[j] = c.Fill[i] + byte(j%7)
	}
	return out
}

func evalC02Server(c c02Server) *Failure {
	srv, _ := newRecServer()
	var stream []byte
	for i := range c.Lens {
		stream = resp.CmdB([]byte("ECHO"), c.payload(i)).Encode(stream)
	}
	conn := connsim.NewPreloaded(1, connsim.Chunks(stream, c.Sizes))
	o := connsim.Serve(srv, conn, serveTimeout())
	what := fmt.Sprintf("ECHO of payload lengths %v delivered in chunks %v", c.Lens, c.Sizes)
	if o.TimedOut {
		return stallFailure("c02|server", what)
	}
	if o.Panic != nil {
		return failf("c02|server|panic|"+panicKey(o), "%s: panic: %v", what, o.Panic)
	}
	frames, _, err := conn.Frames()
	if err != nil || len(frames) != len(c.Lens) {
		return failf("c02|server|replies", "%s: %d replies for %d requests (%v); the connection loop returned %v", what, len(frames), len(c.Lens), err, o.Err)
	}
	for i := range frames {
		if !frames[i].Equal(resp.BB(c.payload(i))) {
			return failf("c02|server|value", "%s: reply %d is not the payload that was sent (got %d bytes %q...)", what, i, len(frames[i].Data), clip(frames[i].Data))
		}
	}
	return nil
}

func init() {
	register("c02.stream", evalC02)
	register("c02.server", evalC02Server)
	register("c02.buffer", evalC02Buffer)
}

func TestC02(t *testing.T) {
	h := newHarness(t, "C02", "sequences of 1..8 value trees (as C01, bulks to 64KiB) concatenated and delivered through a chunking reader: every 2-way split point "+
		"(all of them for streams <= 400 bytes, all length-prefix/CR-LF cuts plus 64 sampled otherwise), all-1-byte delivery, and random k-way partitions biased to length prefixes and CR|LF; the end of stream is reported on a read of its own or (a third of the cases) together with the last bytes. "+
		"Oracle: i-th Next() equals i-th value, bytes consumed after it equal the value's end offset exactly, then (nil,nil). "+
		"Plus the same through the server's connection path: pipelined ECHO requests with payloads around 4 KiB / 8 KiB / 64 KiB boundaries in generated chunkings (single cut, fixed segments, random), every reply must be the payload sent. "+
		"LONG-LIVED PARSERS: one parser reads tens of thousands of small valid values (bulk strings and command arrays with lengths cycling through a drawn list, arrays of 50000 elements up to 1.4 million elements in total, a thousand null arrays followed by nested arrays, one array of up to 70000 sub-arrays); every value must come back exactly. "+
		"Non-trivial: >=2 values and a chunk boundary strictly inside the stream (long streams: always). Distinct = distinct (stream, partition).")
	defer h.Finish()
	h.Probes()

	gen := resp.GenOpts{MaxBulk: 65536, MaxArity: 6, MaxDepth: 3}
	small := resp.GenOpts{MaxBulk: 48, MaxArity: 4, MaxDepth: 3}

	run := func(rt *rapid.T, c c02Case, data []byte, extra string) {
		nt, classes := c02Classes(data, c.Sizes, len(c.Values))
		canon := append(append([]byte{}, data...), []byte(fmt.Sprint(c.Sizes, c.EOFWithLast))...)
		if c.EOFWithLast {
			classes = append(classes, "eof-with-last-bytes")
		}
		h.Col.Case(nt, canon, append(classes, extra)...)
		if h.Col.WantSample() {
			vs := []string{}
			for _, v := range c.Values {
				vs = append(vs, v.String())
			}
			h.Col.Sample(map[string]any{"values": vs, "chunk_sizes": c.Sizes, "stream_len": len(data), "mode": extra})
		}
		h.Fail(rt, "c02.stream", c, evalC02(c))
	}

	// every 2-way split point + all-1-byte
	h.Rapid("splits", h.N(500, 5000), func(rt *rapid.T) {
		o := small
		if rapid.IntRange(0, 9).Draw(rt, "big") == 0 {
			o = gen
		}
		n := rapid.IntRange(1, 8).Draw(rt, "n")
		c := c02Case{}
		for i := 0; i < n; i++ {
			c.Values = append(c.Values, resp.GenValue(o).Draw(rt, "v"))
		}
		data, _ := resp.EncodeAll(c.Values)
		if len(data) < 2 {
			return
		}
		var cuts []int
		if len(data) <= 400 {
			for i := 1; i < len(data); i++ {
				cuts = append(cuts, i)
			}
		} else {
			a, b, _ := resp.InterestingCuts(data)
			cuts = append(cuts, a...)
			cuts = append(cuts, b...)
			if len(cuts) > 600 {
				cuts = cuts[:600]
			}
			for i := 0; i < 64; i++ {
				cuts = append(cuts, rapid.IntRange(1, len(data)-1).Draw(rt, "cut"))
			}
		}
		c.EOFWithLast = rapid.IntRange(0, 2).Draw(rt, "eofwithlast") == 0
		for _, cut := range cuts {
			cc := c
			cc.Sizes = []int{cut}
			run(rt, cc, data, "two-way-split")
		}
		if !c.EOFWithLast {
			// unsplit, the end of stream reported together with the last bytes
			cc := c
			cc.EOFWithLast = true
			run(rt, cc, data, "eof-with-last-bytes")
		}
		if len(data) <= 20000 {
			cc := c
			cc.Sizes = make([]int, len(data))
			for i := range cc.Sizes {
				cc.Sizes[i] = 1
			}
			cc.Sizes = cc.Sizes[:len(data)-1]
			run(rt, cc, data, "one-byte-reads")
		}
	})

	// through the server's connection path, with payloads around the sizes of read-ahead and growth buffers
	h.Rapid("server", h.N(1500, 15000), func(rt *rapid.T) {
		c := c02Server{}
		n := rapid.IntRange(1, 4).Draw(rt, "n")
		total := 0
		for i := 0; i < n; i++ {
			var l int
			switch rapid.IntRange(0, 3).Draw(rt, "lencls") {
			case 0:
				l = rapid.SampledFrom([]int{4090, 4093, 4094, 4095, 4096, 4097, 8191, 8192, 8193, 65533, 65534, 65535, 65536, 65537, 70000, 131072}).Draw(rt, "blen")
			case 1:
				l = rapid.IntRange(0, 9000).Draw(rt, "len")
			default:
				l = rapid.IntRange(0, 40).Draw(rt, "small")
			}
			c.Lens = append(c.Lens, l)
			c.Fill = append(c.Fill, byte(rapid.IntRange(0, 248).Draw(rt, "fill")))
			total += l + 30
		}
		switch rapid.IntRange(0, 4).Draw(rt, "chunking") {
		case 0:
		case 1:
			c.Sizes = []int{rapid.IntRange(1, total).Draw(rt, "cut")}
		case 2:
			sz := rapid.SampledFrom([]int{1000, 1460, 4096, 16384}).Draw(rt, "segment")
			for off := 0; off < total; off += sz {
				c.Sizes = append(c.Sizes, sz)
			}
		default:
			for i, k := 0, rapid.IntRange(1, 6).Draw(rt, "k"); i < k; i++ {
				c.Sizes = append(c.Sizes, rapid.IntRange(1, total/2+1).Draw(rt, "size"))
			}
		}
		big := false
		for _, l := range c.Lens {
			big = big || l >= 4000
		}
		h.Col.Case(big && n >= 2 && len(c.Sizes) > 0, []byte(fmt.Sprint(c.Lens, c.Fill, c.Sizes)), "server-path")
		if h.Col.WantSample() {
			h.Col.Sample(map[string]any{"mode": "server-path", "payload_lengths": c.Lens, "chunk_sizes": c.Sizes})
		}
		h.Fail(rt, "c02.server", c, evalC02Server(c))
	})

	// a bytes.Buffer refilled value by value; everything is compared at the end
	h.Rapid("refilled-buffer", h.N(3000, 60000), func(rt *rapid.T) {
		c := c02Case{}
		for i, n := 0, rapid.IntRange(2, 8).Draw(rt, "n"); i < n; i++ {
			c.Values = append(c.Values, resp.GenValue(small).Draw(rt, "v"))
		}
		data, _ := resp.EncodeAll(c.Values)
		h.Col.Case(true, append([]byte("buffer\x00"), data...), "refilled-buffer")
		h.Fail(rt, "c02.buffer", c, evalC02Buffer(c))
	})

	// long-lived parsers: many small valid values through ONE parser
	h.Rapid("long-streams", h.N(60, 1500), func(rt *rapid.T) {
		c := c02Long{Pattern: rapid.SampledFrom([]string{"bulks", "bulks", "commands", "commands", "big-arrays", "null-arrays", "siblings", "nested-big"}).Draw(rt, "pattern")}
		c.Chunk = rapid.SampledFrom([]int{0, 0, 1460, 4096, 65536}).Draw(rt, "chunk")
		switch c.Pattern {
		case "bulks", "commands":
			for i, k := 0, rapid.IntRange(1, 7).Draw(rt, "nsizes"); i < k; i++ {
				c.Sizes = append(c.Sizes, rapid.SampledFrom([]int{0, 1, 1, 2, 3, 5, 8, 12, 13, 40, 100, 254, 255, 256, 257}).Draw(rt, "size"))
			}
			c.N = rapid.SampledFrom([]int{4000, 22000, 70000, 150000, 400000}).Draw(rt, "n")
			if rapid.Bool().Draw(rt, "aperiodic") {
				c.Seed = rapid.Uint32Range(1, 1<<31).Draw(rt, "seed")
			}
		case "big-arrays":
			c.Sizes = []int{rapid.SampledFrom([]int{1000, 50000, 65536}).Draw(rt, "arity")}
			c.N = 1400000/c.Sizes[0] + rapid.IntRange(0, 3).Draw(rt, "more")
		case "nested-big":
			c.N = rapid.IntRange(1, 3).Draw(rt, "n")
			c.Sizes = []int{rapid.SampledFrom([]int{3, 1024, 1025, 1100, 2049}).Draw(rt, "arity")}
		case "null-arrays":
			c.N = rapid.SampledFrom([]int{10, 1022, 1023, 1024, 1100, 5000}).Draw(rt, "n")
			c.Sizes = []int{rapid.SampledFrom([]int{0, 1, 4, 500, 1000}).Draw(rt, "depth")}
		default:
			c.N = rapid.SampledFrom([]int{3, 1000, 1023, 1024, 1025, 1100, 5000, 70000}).Draw(rt, "n")
			c.Sizes = []int{rapid.IntRange(0, 1).Draw(rt, "pairs")}
		}
		h.Col.Case(true, []byte(c.String()), "long-stream:"+c.Pattern)
		if h.Col.WantSample() {
			h.Col.Sample(c)
		}
		h.Fail(rt, "c02.long", c, evalC02Long(c))
	})

	// random k-way partitions
	h.Rapid("partitions", h.N(8000, 100000), func(rt *rapid.T) {
		o := small
		if rapid.IntRange(0, 5).Draw(rt, "big") == 0 {
			o = gen
		}
		n := rapid.IntRange(1, 8).Draw(rt, "n")
		c := c02Case{}
		for i := 0; i < n; i++ {
			c.Values = append(c.Values, resp.GenValue(o).Draw(rt, "v"))
		}
		data, _ := resp.EncodeAll(c.Values)
		c.Sizes = resp.GenSizes(data).Draw(rt, "sizes")
		if len(c.Sizes) > 3000 {
			c.Sizes = c.Sizes[:3000]
		}
		c.EOFWithLast = rapid.IntRange(0, 3).Draw(rt, "eofwithlast") == 0
		run(rt, c, data, "k-way")
	})
}
