package props

import (
	exserver "github.com/cybergarage/go-redis/examples/go-redisd/server"
	"github.com/cybergarage/go-redis/redis/auth"
	"path/filepath"

	"bufio"
	"encoding/binary"
	"encoding/json"
	"fmt"
	"io"
	"os"
	"os/exec"
	"sync"
	"syscall"
	"testing"
	"time"
)

// TestMain: the test binary doubles as a child worker. With VERIF_CHILD set it
// never runs tests; it serves one of the worker protocols below and exits.
func TestMain(m *testing.M) {
	switch os.Getenv("VERIF_CHILD") {
	case "":
		os.Exit(m.Run())
	case "eval":
		childEvalLoop()
	case "server":
		childServer()
	case "c14":
		childC14()
	default:
		fmt.Fprintln(os.Stderr, "unknown VERIF_CHILD mode")
		os.Exit(64)
	}
}

// ---- persistent evaluation worker under RLIMIT_AS --------------------------
//
// Protocol (binary, over stdin/stdout): request = uint32 length + JSON {kind, case};
// answer = uint32 length + JSON {ok bool, key, detail}. The worker applies
// RLIMIT_AS itself before serving. If the worker dies, the parent attributes the
// death to the request in flight.

type childReq struct {
	Kind string          `json:"kind"`
	Case json.RawMessage `json:"case"`
}

type childAns struct {
	Fail   bool   `json:"fail"`
	Key    string `json:"key,omitempty"`
	Detail string `json:"detail,omitempty"`
}

func childEvalLoop() {
	if s := os.Getenv("VERIF_CHILD_AS"); s != "" {
		var lim uint64
		fmt.Sscan(s, &lim)
		if lim > 0 {
			syscall.Setrlimit(syscall.RLIMIT_AS, &syscall.Rlimit{Cur: lim, Max: lim})
		}
	}
	in := bufio.NewReader(os.Stdin)
	out := bufio.NewWriter(os.Stdout)
	for {
		var n uint32
		if err := binary.Read(in, binary.LittleEndian, &n); err != nil {
			os.Exit(0)
		}
		buf := make([]byte, n)
		if _, err := io.ReadFull(in, buf); err != nil {
			os.Exit(0)
		}
		var rq childReq
		ans := childAns{}
		if err := json.Unmarshal(buf, &rq); err != nil {
			ans = childAns{Fail: true, Key: "replay|bad-case", Detail: err.Error()}
		} else if fn, ok := kinds[rq.Kind]; !ok {
			ans = childAns{Fail: true, Key: "replay|bad-kind", Detail: rq.Kind}
		} else if f := fn(rq.Case); f != nil {
			ans = childAns{Fail: true, Key: f.Key, Detail: f.Detail}
		}
		b, _ := json.Marshal(ans)
		binary.Write(out, binary.LittleEndian, uint32(len(b)))
		out.Write(b)
		out.Flush()
	}
}

// EvalChild is a handle to a persistent worker.
type EvalChild struct {
	mu      sync.Mutex
	cmd     *exec.Cmd
	in      io.WriteCloser
	out     *bufio.Reader
	asLimit uint64
	Spawns  int
	stderr  *tailBuf
}

type tailBuf struct {
	mu  sync.Mutex
	buf []byte
}

func (t *tailBuf) Write(p []byte) (int, error) {
	t.mu.Lock()
	defer t.mu.Unlock()
	t.buf = append(t.buf, p...)
	if len(t.buf) > 8192 {
		t.buf = t.buf[len(t.buf)-8192:]
	}
	return len(p), nil
}

func (t *tailBuf) String() string {
	t.mu.Lock()
	defer t.mu.Unlock()
	return string(t.buf)
}

func selfBinary() string {
	if b := os.Getenv("VERIF_BIN"); b != "" {
		return b
	}
	exe, err := os.Executable()
	if err != nil {
		panic(err)
	}
	return exe
}

func NewEvalChild(asLimit uint64) *EvalChild { return &EvalChild{asLimit: asLimit} }

func (c *EvalChild) start() error {
	cmd := exec.Command(selfBinary())
	cmd.Env = append(os.Environ(), "VERIF_CHILD=eval", fmt.Sprintf("VERIF_CHILD_AS=%d", c.asLimit), "GOMAXPROCS=2", "GOTRACEBACK=single")
	in, err := cmd.StdinPipe()
	if err != nil {
		return err
	}
	out, err := cmd.StdoutPipe()
	if err != nil {
		return err
	}
	c.stderr = &tailBuf{}
	cmd.Stderr = c.stderr
	if err := cmd.Start(); err != nil {
		return err
	}
	c.cmd, c.in, c.out = cmd, in, bufio.NewReader(out)
	c.Spawns++
	return nil
}

func (c *EvalChild) Close() {
	c.mu.Lock()
	defer c.mu.Unlock()
	if c.cmd != nil {
		c.in.Close()
		c.cmd.Process.Kill()
		c.cmd.Wait()
		c.cmd = nil
	}
}

// Eval runs one case in the worker. died=true means the worker process ended
// while evaluating it (abort, fatal error, kill); status describes how.
func (c *EvalChild) Eval(kind string, cs any, timeout time.Duration) (f *Failure, died bool, status string, err error) {
	c.mu.Lock()
	defer c.mu.Unlock()
	if c.cmd == nil {
		if err := c.start(); err != nil {
			return nil, false, "", err
		}
	}
	raw, err := json.Marshal(cs)
	if err != nil {
		return nil, false, "", err
	}
	rq, _ := json.Marshal(childReq{Kind: kind, Case: raw})
	type res struct {
		ans childAns
		err error
	}
	ch := make(chan res, 1)
	go func() {
		if err := binary.Write(c.in, binary.LittleEndian, uint32(len(rq))); err != nil {
			ch <- res{err: err}
			return
		}
		if _, err := c.in.Write(rq); err != nil {
			ch <- res{err: err}
			return
		}
		var n uint32
		if err := binary.Read(c.out, binary.LittleEndian, &n); err != nil {
			ch <- res{err: err}
			return
		}
		buf := make([]byte, n)
		if _, err := io.ReadFull(c.out, buf); err != nil {
			ch <- res{err: err}
			return
		}
		var a childAns
		err := json.Unmarshal(buf, &a)
		ch <- res{ans: a, err: err}
	}()
	timedOut := false
	var r res
	select {
	case r = <-ch:
	case <-time.After(timeout):
		timedOut = true
		c.cmd.Process.Kill()
		r = <-ch
	}
	if r.err != nil {
		// the worker went away
		werr := c.cmd.Wait()
		st := "exited"
		if werr != nil {
			st = werr.Error()
		}
		if timedOut {
			st = "no answer within " + timeout.String() + " (killed)"
		}
		tail := c.stderr.String()
		if len(tail) > 600 {
			tail = tail[:600]
		}
		c.in.Close()
		c.cmd = nil
		return nil, true, st + "; stderr: " + tail, nil
	}
	if r.ans.Fail {
		return &Failure{Key: r.ans.Key, Detail: r.ans.Detail}, false, "", nil
	}
	return nil, false, "", nil
}

// childServer runs the bundled example server on the loopback port given in VERIF_CHILD_PORT
// until stdin is closed. It is the unit whose survival the parent judges.
func childServer() {
	if s := os.Getenv("VERIF_CHILD_AS"); s != "" {
		var lim uint64
		fmt.Sscan(s, &lim)
		if lim > 0 {
			syscall.Setrlimit(syscall.RLIMIT_AS, &syscall.Rlimit{Cur: lim, Max: lim})
		}
	}
	var port int
	fmt.Sscan(os.Getenv("VERIF_CHILD_PORT"), &port)
	srv := exserver.NewServer()
	srv.SetPort(port)
	if dir := os.Getenv("VERIF_CHILD_PKI"); dir != "" {
		// TLS listener with the certificates the parent has generated
		var tlsPort int
		fmt.Sscan(os.Getenv("VERIF_CHILD_TLSPORT"), &tlsPort)
		srv.SetTLSPort(tlsPort)
		rd := func(name string) []byte {
			b, err := os.ReadFile(filepath.Join(dir, name))
			if err != nil {
				fmt.Println("START-FAILED", err)
				os.Exit(65)
			}
			return b
		}
		srv.ServerCert, srv.ServerKey, srv.CACerts = rd("server.crt"), rd("server.key"), rd("ca.crt")
		if rule := os.Getenv("VERIF_CHILD_RULE"); rule != "" {
			srv.AddAuthenticator(auth.NewCertificateAuthenticatorWith(auth.WithCommonName(rule)))
		}
	}
	if err := srv.Start(); err != nil {
		fmt.Println("START-FAILED", err)
		os.Exit(65)
	}
	fmt.Println("READY")
	io.Copy(io.Discard, os.Stdin)
	srv.Stop()
	os.Exit(0)
}

// TestSelfCodec checks the harness's own codec on fixed cases (run by --setup).
func TestSelfCodec(t *testing.T) {
	selfCodec(t)
}
