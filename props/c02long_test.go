package props

import (
	"bytes"
	"fmt"
	"strconv"

	"github.com/cybergarage/go-redis/redis/proto"

	"verif/internal/resp"
)

// ---- C02, long-lived parsers: state a parser accumulates over many values must not change what it returns ----
//
// One Parser reads a long stream of values that are each small and valid; every Next() must return exactly the
// next value and consume exactly its bytes.
//   bulks:       N top-level bulk strings, lengths cycling through Sizes
//   commands:    N arrays of three bulk strings (lengths cycling through Sizes)
//   big-arrays:  N arrays of Sizes[0] one-byte bulk strings each (millions of elements in total)
//   null-arrays: N null arrays ("*-1"), accepted as arrays without elements, then a chain of Sizes[0] nested arrays
//   nested-big:  N times: an array of Sizes[0] bulk strings, then an array of Sizes[0] elements whose second element is
//                itself an array of Sizes[0] bulk strings (large arrays inside large arrays, after earlier large arrays)
//   siblings:    one array of N sub-arrays (empty, or pairs), i.e. many array nodes at depth two

type c02Long struct {
	Pattern string `json:"pattern"`
	N       int    `json:"n"`
	Sizes   []int  `json:"sizes"`
	Chunk   int    `json:"chunk"`          // read size of the transport (0: everything in one read)
	Seed    uint32 `json:"seed,omitempty"` // != 0: lengths are picked from Sizes in a pseudo-random (aperiodic) order derived from it
}

// sizeAt is the length of the i-th bulk string of the stream.
func (c c02Long) sizeAt(i int) int {
	if c.Seed == 0 {
		return c.Sizes[i%len(c.Sizes)]
	}
	x := uint32(i)*2654435761 + c.Seed
	x ^= x >> 15
	x *= 2246822519
	x ^= x >> 13
	return c.Sizes[int(x%uint32(len(c.Sizes)))]
}

func (c c02Long) String() string {
	return fmt.Sprintf("%s n=%d sizes=%v seed=%d chunk=%d", c.Pattern, c.N, c.Sizes, c.Seed, c.Chunk)
}

// stream builds the byte stream of the case.
func (c c02Long) stream() ([]byte, *Failure) {
	if len(c.Sizes) == 0 {
		c.Sizes = []int{1}
	}
	var buf bytes.Buffer
	payload := func(i, n int) []byte {
		b := make([]byte, n)
		for j := range b {
			b[j] = byte('a' + (i+j)%26)
		}
		return b
	}
	bulk := func(i, n int) {
		buf.WriteString("$" + strconv.Itoa(n) + "\r\n")
		buf.Write(payload(i, n))
		buf.WriteString("\r\n")
	}
	// expected[i] is built lazily in check()
	switch c.Pattern {
	case "bulks":
		for i := 0; i < c.N; i++ {
			bulk(i, c.sizeAt(i))
		}
	case "commands":
		for i := 0; i < c.N; i++ {
			buf.WriteString("*3\r\n")
			for j := 0; j < 3; j++ {
				bulk(i+j, c.sizeAt(3*i+j))
			}
		}
	case "big-arrays":
		for i := 0; i < c.N; i++ {
			buf.WriteString("*" + strconv.Itoa(c.Sizes[0]) + "\r\n")
			for j := 0; j < c.Sizes[0]; j++ {
				bulk(i+j, 1)
			}
		}
	case "null-arrays":
		for i := 0; i < c.N; i++ {
			buf.WriteString("*-1\r\n")
		}
		for d := 0; d < c.Sizes[0]; d++ {
			buf.WriteString("*1\r\n")
		}
		bulk(0, 1)
	case "nested-big":
		for i := 0; i < c.N; i++ {
			buf.WriteString("*" + strconv.Itoa(c.Sizes[0]) + "\r\n")
			for j := 0; j < c.Sizes[0]; j++ {
				bulk(i+j, 1)
			}
			buf.WriteString("*" + strconv.Itoa(c.Sizes[0]) + "\r\n")
			for j := 0; j < c.Sizes[0]; j++ {
				if j == 1 {
					buf.WriteString("*" + strconv.Itoa(c.Sizes[0]) + "\r\n")
					for k := 0; k < c.Sizes[0]; k++ {
						bulk(i+k+7, 1)
					}
					continue
				}
				bulk(i+j+3, 1)
			}
		}
	case "siblings":
		buf.WriteString("*" + strconv.Itoa(c.N) + "\r\n")
		for i := 0; i < c.N; i++ {
			if c.Sizes[0] == 0 {
				buf.WriteString("*0\r\n")
			} else {
				buf.WriteString("*2\r\n")
				bulk(i, 1)
				bulk(i+1, 1)
			}
		}
	default:
		return nil, failf("replay|bad-case", "unknown pattern %q", c.Pattern)
	}
	return buf.Bytes(), nil
}

func longPayload(i, n int) []byte {
	b := make([]byte, n)
	for j := range b {
		b[j] = byte('a' + (i+j)%26)
	}
	return b
}

func evalC02Long(c c02Long) (fl *Failure) {
	if len(c.Sizes) == 0 {
		c.Sizes = []int{1}
	}
	payload := longPayload
	data, f := c.stream()
	if f != nil {
		return f
	}
	var sizes []int
	if c.Chunk > 0 {
		for off := 0; off < len(data); off += c.Chunk {
			sizes = append(sizes, c.Chunk)
		}
	}
	r := resp.NewChunkReader(data, sizes)
	r.Limit = 1000000 + 1000*len(data)
	defer func() {
		if rec := recover(); rec != nil {
			if sl, ok := rec.(resp.StepLimit); ok {
				fl = failf("c02|long|steps", "%s: more than %d reads", c, sl.Reads)
				return
			}
			fl = failf("c02|long|panic", "%s: panic after %d of %d bytes: %v", c, r.Consumed(), len(data), rec)
		}
	}()
	p := proto.NewParserWithReader(r)
	str := func(m *proto.Message) (string, bool) {
		if m == nil || !m.IsBulk() {
			return "", false
		}
		b, err := m.Bytes()
		return string(b), err == nil
	}
	elems := func(m *proto.Message) ([]*proto.Message, bool) {
		if m == nil || !m.IsArray() {
			return nil, false
		}
		arr, err := m.Array()
		if err != nil {
			return nil, false
		}
		var out []*proto.Message
		for {
			e, err := arr.Next()
			if err != nil {
				return nil, false
			}
			if e == nil {
				return out, true
			}
			out = append(out, e)
		}
	}
	next := func(i int) (*proto.Message, *Failure) {
		m, err := p.Next()
		if err != nil {
			return nil, failf("c02|long|error", "%s: value %d (after %d bytes of %d): parser error %v", c, i, r.Consumed(), len(data), err)
		}
		if m == nil {
			return nil, failf("c02|long|early-eos", "%s: end of stream reported at value %d (after %d bytes of %d)", c, i, r.Consumed(), len(data))
		}
		return m, nil
	}
	wrong := func(i int, what string) *Failure {
		return failf("c02|long|value", "%s: value %d is not %s", c, i, what)
	}
	switch c.Pattern {
	case "bulks":
		for i := 0; i < c.N; i++ {
			m, f := next(i)
			if f != nil {
				return f
			}
			if s, ok := str(m); !ok || s != string(payload(i, c.sizeAt(i))) {
				return wrong(i, "the bulk string that was sent")
			}
		}
	case "commands":
		for i := 0; i < c.N; i++ {
			m, f := next(i)
			if f != nil {
				return f
			}
			es, ok := elems(m)
			if !ok || len(es) != 3 {
				return wrong(i, "an array of three elements")
			}
			for j, e := range es {
				if s, ok := str(e); !ok || s != string(payload(i+j, c.sizeAt(3*i+j))) {
					return wrong(i, fmt.Sprintf("the array that was sent (element %d)", j))
				}
			}
		}
	case "big-arrays":
		for i := 0; i < c.N; i++ {
			m, f := next(i)
			if f != nil {
				return f
			}
			es, ok := elems(m)
			if !ok || len(es) != c.Sizes[0] {
				return wrong(i, fmt.Sprintf("an array of %d elements", c.Sizes[0]))
			}
			for j, e := range es {
				if s, ok := str(e); !ok || s != string(payload(i+j, 1)) {
					return wrong(i, fmt.Sprintf("the array that was sent (element %d)", j))
				}
			}
		}
	case "nested-big":
		flat := func(m *proto.Message, idx, off int) *Failure {
			es, ok := elems(m)
			if !ok || len(es) != c.Sizes[0] {
				return wrong(idx, fmt.Sprintf("an array of %d elements", c.Sizes[0]))
			}
			for j, e := range es {
				if s, ok := str(e); !ok || s != string(payload(off+j, 1)) {
					return wrong(idx, fmt.Sprintf("the array that was sent (element %d absent or different)", j))
				}
			}
			return nil
		}
		for i := 0; i < c.N; i++ {
			m, f := next(2 * i)
			if f != nil {
				return f
			}
			if f := flat(m, 2*i, i); f != nil {
				return f
			}
			m, f = next(2*i + 1)
			if f != nil {
				return f
			}
			es, ok := elems(m)
			if !ok || len(es) != c.Sizes[0] {
				return wrong(2*i+1, fmt.Sprintf("an array of %d elements", c.Sizes[0]))
			}
			for j, e := range es {
				if j == 1 {
					if f := flat(e, 2*i+1, i+7); f != nil {
						return f
					}
					continue
				}
				if s, ok := str(e); !ok || s != string(payload(i+j+3, 1)) {
					return wrong(2*i+1, fmt.Sprintf("the array that was sent (element %d absent or different)", j))
				}
			}
		}
	case "null-arrays":
		for i := 0; i < c.N; i++ {
			m, f := next(i)
			if f != nil {
				return f
			}
			if es, ok := elems(m); !ok || len(es) != 0 {
				return wrong(i, "an array without elements (null array)")
			}
		}
		m, f := next(c.N)
		if f != nil {
			return f
		}
		for d := 0; d < c.Sizes[0]; d++ {
			es, ok := elems(m)
			if !ok || len(es) != 1 {
				return wrong(c.N, fmt.Sprintf("a chain of %d nested arrays (level %d)", c.Sizes[0], d))
			}
			m = es[0]
		}
		if s, ok := str(m); !ok || s != string(payload(0, 1)) {
			return wrong(c.N, "the nested value that was sent")
		}
	case "siblings":
		m, f := next(0)
		if f != nil {
			return f
		}
		es, ok := elems(m)
		if !ok || len(es) != c.N {
			return wrong(0, fmt.Sprintf("an array of %d sub-arrays", c.N))
		}
		for i, e := range es {
			sub, ok := elems(e)
			want := 2
			if c.Sizes[0] == 0 {
				want = 0
			}
			if !ok || len(sub) != want {
				return wrong(0, fmt.Sprintf("the array that was sent (sub-array %d)", i))
			}
		}
	}
	if r.Consumed() != len(data) {
		return failf("c02|long|consumed", "%s: %d of %d bytes consumed after the last value", c, r.Consumed(), len(data))
	}
	if m, err := p.Next(); m != nil || err != nil {
		return failf("c02|long|tail", "%s: after the last value the parser returned (%v, %v), want end of stream", c, m, err)
	}
	return nil
}

func init() { register("c02.long", evalC02Long) }
