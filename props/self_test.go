package props

import (
	"testing"

	"verif/internal/resp"
)

func selfCodec(t *testing.T) {
	good := map[string]resp.Value{
		"+OK\r\n":                       resp.S("OK"),
		"-ERR x\r\n":                    resp.E("ERR x"),
		":-12\r\n":                      resp.I(-12),
		"$-1\r\n":                       resp.Nil(),
		"$0\r\n\r\n":                    resp.B(""),
		"$4\r\na\r\nb\r\n":              resp.B("a\r\nb"),
		"*0\r\n":                        resp.A(),
		"*2\r\n$1\r\na\r\n*1\r\n:1\r\n": resp.A(resp.B("a"), resp.A(resp.I(1))),
	}
	for enc, v := range good {
		if string(v.Bytes()) != enc {
			t.Errorf("encode %s = %q want %q", v, v.Bytes(), enc)
		}
		d, n, err := resp.Decode([]byte(enc))
		if err != nil || n != len(enc) || !d.Equal(v) {
			t.Errorf("decode %q = %s,%d,%v", enc, d, n, err)
		}
		for i := 0; i < len(enc); i++ {
			if _, _, err := resp.Decode([]byte(enc[:i])); err != resp.ErrIncomplete {
				t.Errorf("decode prefix %q: %v, want incomplete", enc[:i], err)
			}
		}
	}
	bad := []string{"+a\nb\r\n", "+a\rb\r\n", ":1x\r\n", ":\r\n", "$01\r\na\r\n", "$-2\r\n", "$1\r\nab\r\n", "*-1\r\n", "*01\r\n+a\r\n", "?\r\n", "internal system error", "$+1\r\na\r\n", ":+1\r\n"}
	for _, enc := range bad {
		if _, _, err := resp.Decode([]byte(enc)); err == nil || err == resp.ErrIncomplete {
			t.Errorf("decode %q: %v, want invalid", enc, err)
		}
	}
	vs, ends, err := resp.DecodeAll([]byte("+a\r\n:1\r\n$3\r\nab"))
	if len(vs) != 2 || ends[1] != 8 || err != resp.ErrIncomplete {
		t.Errorf("DecodeAll: %v %v %v", vs, ends, err)
	}
}
