package props

import (
	"crypto/sha256"
	"encoding/hex"
	"encoding/json"
	"flag"
	"fmt"
	"os"
	"path/filepath"
	"runtime/debug"
	"strconv"
	"strings"
	"sync"
	"testing"

	"pgregory.net/rapid"

	"verif/internal/evid"
)

// Failure is what an oracle returns when a case violates the property.
type Failure struct {
	Key    string `json:"key"`    // failure signature (stable, specific)
	Detail string `json:"detail"` // human-readable explanation
}

func failf(key, format string, a ...any) *Failure {
	return &Failure{Key: key, Detail: fmt.Sprintf(format, a...)}
}

// kinds maps a replay "kind" to the oracle that evaluates a case of that kind without rapid.
var kinds = map[string]func(raw json.RawMessage) *Failure{}

func register[C any](kind string, eval func(c C) *Failure) {
	kinds[kind] = func(raw json.RawMessage) *Failure {
		var c C
		if err := json.Unmarshal(raw, &c); err != nil {
			return failf("replay|bad-case", "cannot decode case: %v", err)
		}
		return eval(c)
	}
}

// Replay is the on-disk form of a failing (or probe) case.
type Replay struct {
	Property string          `json:"property"`
	Kind     string          `json:"kind"`
	Key      string          `json:"key"`
	Detail   string          `json:"detail,omitempty"`
	Case     json.RawMessage `json:"case"`
}

// Finding is one entry of known_findings.json.
type Finding struct {
	Property string `json:"property"`
	Status   string `json:"status"` // open | fixed
	Key      string `json:"key"`    // failure signature; a trailing * matches any suffix
	What     string `json:"what"`
	Probe    string `json:"probe"`  // replay file, relative to /verif
	Avoid    string `json:"avoid"`  // generator tag to exclude the region while the finding is open
	Commit   string `json:"commit"` // for fixed entries
	active   bool
}

func verifRoot() string {
	if r := os.Getenv("VERIF_ROOT"); r != "" {
		return r
	}
	wd, _ := os.Getwd()
	// tests run in <root>/props
	return filepath.Dir(wd)
}

func loadFindings(prop string) []*Finding {
	b, err := os.ReadFile(filepath.Join(verifRoot(), "known_findings.json"))
	if err != nil {
		return nil
	}
	var all struct {
		Findings []*Finding `json:"findings"`
	}
	if err := json.Unmarshal(b, &all); err != nil {
		panic("known_findings.json: " + err.Error())
	}
	var out []*Finding
	for _, f := range all.Findings {
		if f.Property == prop {
			out = append(out, f)
		}
	}
	return out
}

func keyMatches(pattern, key string) bool {
	if strings.HasSuffix(pattern, "*") {
		return strings.HasPrefix(key, strings.TrimSuffix(pattern, "*"))
	}
	return pattern == key
}

// Harness is the per-property run context.
type Harness struct {
	t        *testing.T
	Prop     string
	Col      *evid.Collector
	Tier     string
	Seed     int64
	Shard    int
	NShards  int
	findings []*Finding
	mu       sync.Mutex
	last     *Replay // last failing case seen inside a rapid property (the shrunk one at the end)
	viol     int
	trouble  int
	stopped  bool
}

func newHarness(t *testing.T, prop, rule string) *Harness {
	tier, seed, shard := evid.Env()
	h := &Harness{t: t, Prop: prop, Col: evid.New(prop, rule), Tier: tier, Seed: seed, Shard: shard, NShards: 1}
	if s := os.Getenv("VERIF_NSHARDS"); s != "" {
		if n, err := strconv.Atoi(s); err == nil && n > 0 {
			h.NShards = n
		}
	}
	h.findings = loadFindings(prop)
	return h
}

// N picks a case count by tier; VERIF_SCALE (percent) scales it for development.
func (h *Harness) N(quick, thorough int) int {
	n := quick
	if h.Tier == "thorough" {
		n = thorough
	}
	if s := os.Getenv("VERIF_SCALE"); s != "" {
		if p, err := strconv.Atoi(s); err == nil && p > 0 {
			n = n * p / 100
		}
	}
	if n < 1 {
		n = 1
	}
	return n
}

func (h *Harness) Thorough() bool { return h.Tier == "thorough" }

// Avoid reports whether the generators must stay out of the region named by tag
// (an open known finding whose probe still fails).
func (h *Harness) Avoid(tag string) bool {
	for _, f := range h.findings {
		if f.active && f.Avoid == tag {
			return true
		}
	}
	return false
}

func (h *Harness) openMatch(key string) *Finding {
	for _, f := range h.findings {
		if f.Status == "open" && keyMatches(f.Key, key) {
			return f
		}
	}
	return nil
}

// Probes replays every committed replay file of the property: probes of open
// findings (KNOWN-FINDING line if they still fail with the listed key) and
// regression cases of fixed findings (VIOLATION if they fail again).
func (h *Harness) Probes() {
	if h.Shard != 0 {
		// other shards still need to know which findings are active
		for _, f := range h.findings {
			if f.Status == "open" && f.Probe != "" {
				if fl := h.replayFile(filepath.Join(verifRoot(), f.Probe)); fl != nil && keyMatches(f.Key, fl.Key) {
					f.active = true
				}
			}
		}
		return
	}
	seen := map[string]bool{}
	for _, f := range h.findings {
		if f.Probe == "" {
			continue
		}
		path := filepath.Join(verifRoot(), f.Probe)
		seen[path] = true
		fl := h.replayFile(path)
		switch {
		case f.Status == "open" && fl != nil && keyMatches(f.Key, fl.Key):
			f.active = true
			fmt.Printf("KNOWN-FINDING: property=%s %s [key=%s probe=%s]\n", h.Prop, f.What, f.Key, f.Probe)
		case f.Status == "open" && fl != nil:
			// the probe fails in a different way than listed: that is a new violation
			h.violation(path, fl)
		case f.Status == "open":
			fmt.Printf("note: property=%s listed finding no longer reproduces: %s\n", h.Prop, f.What)
		case fl != nil: // fixed entry failing again
			h.violation(path, fl)
		}
	}
	// any other committed replay under replays/<prop>/ is a regression case
	files, _ := filepath.Glob(filepath.Join(verifRoot(), "replays", h.Prop, "*.json"))
	for _, path := range files {
		if seen[path] {
			continue
		}
		if fl := h.replayFile(path); fl != nil {
			if h.openMatch(fl.Key) == nil {
				h.violation(path, fl)
			}
		}
		h.Col.Class("regression-replays", 1)
	}
}

func (h *Harness) replayFile(path string) *Failure {
	b, err := os.ReadFile(path)
	if err != nil {
		h.t.Fatalf("replay %s: %v", path, err)
	}
	var r Replay
	if err := json.Unmarshal(b, &r); err != nil {
		h.t.Fatalf("replay %s: %v", path, err)
	}
	fn, ok := kinds[r.Kind]
	if !ok {
		h.t.Fatalf("replay %s: unknown kind %q", path, r.Kind)
	}
	return fn(r.Case)
}

func (h *Harness) violation(path string, f *Failure) {
	h.mu.Lock()
	h.viol++
	h.mu.Unlock()
	h.Col.Violation()
	fmt.Printf("VIOLATION property=%s replay=%s\n", h.Prop, path)
	fmt.Printf("  key: %s\n  detail: %s\n", f.Key, f.Detail)
}

func (h *Harness) writeReplay(kind string, c any, f *Failure) string {
	raw, err := json.Marshal(c)
	if err != nil {
		raw = []byte(fmt.Sprintf("%q", fmt.Sprint(c)))
	}
	r := Replay{Property: h.Prop, Kind: kind, Key: f.Key, Detail: f.Detail, Case: raw}
	b, _ := json.MarshalIndent(r, "", " ")
	sum := sha256.Sum256(append([]byte(kind+"|"), raw...))
	dir := filepath.Join(verifRoot(), "replays", "run", h.Prop)
	os.MkdirAll(dir, 0o755)
	path := filepath.Join(dir, hex.EncodeToString(sum[:8])+".json")
	os.WriteFile(path, b, 0o644)
	return path
}

// Report handles the verdict of one case evaluated outside rapid (enumerators).
// It returns true when the run should go on.
// harnessTrouble: a verdict whose key starts with "harness|" is infrastructure trouble (port taken, worker
// died, scheduler expectation not met), never a violation; it makes the run inconclusive.
func (h *Harness) harnessTrouble(f *Failure) bool {
	if !strings.HasPrefix(f.Key, "harness|") {
		return false
	}
	h.mu.Lock()
	h.trouble++
	n := h.trouble
	h.mu.Unlock()
	h.Col.Class("harness-trouble", 1)
	if n <= 5 {
		fmt.Printf("HARNESS-ERROR property=%s %s: %s\n", h.Prop, f.Key, f.Detail)
	}
	return true
}

func (h *Harness) Report(kind string, c any, f *Failure) bool {
	if f == nil {
		return true
	}
	if h.harnessTrouble(f) {
		return true
	}
	if kf := h.openMatch(f.Key); kf != nil {
		h.Col.Excluded(kf.Key)
		return true
	}
	h.violation(h.writeReplay(kind, c, f), f)
	if strings.HasSuffix(f.Key, "|stall") || strings.HasSuffix(f.Key, "-hangs") {
		h.Col.WritePart()
		os.Exit(1)
	}
	h.mu.Lock()
	defer h.mu.Unlock()
	return h.viol < maxViol() // keep going a little so that independent root causes show up in one run
}

// Fail is called from inside a rapid property when the oracle rejects a case.
func (h *Harness) Fail(rt *rapid.T, kind string, c any, f *Failure) {
	if f == nil {
		return
	}
	if h.harnessTrouble(f) {
		return
	}
	if kf := h.openMatch(f.Key); kf != nil {
		h.Col.Excluded(kf.Key)
		return
	}
	if strings.HasSuffix(f.Key, "|stall") || strings.HasSuffix(f.Key, "-hangs") {
		// a spinning or forever-blocked goroutine can neither be killed nor shrunk around in-process:
		// report the current case, save the evidence and leave.
		h.violation(h.writeReplay(kind, c, f), f)
		h.Col.WritePart()
		os.Exit(1)
	}
	raw, _ := json.Marshal(c)
	h.mu.Lock()
	h.last = &Replay{Property: h.Prop, Kind: kind, Key: f.Key, Detail: f.Detail, Case: raw}
	h.mu.Unlock()
	rt.Fatalf("%s: %s", f.Key, f.Detail)
}

// captureTB lets rapid run without failing the enclosing Go test, so that the
// harness decides what a failure means (violation vs. known finding).
type captureTB struct {
	name   string
	failed bool
	logs   []string
}

type failNow struct{}

func (c *captureTB) Helper()                   {}
func (c *captureTB) Name() string              { return c.name }
func (c *captureTB) Logf(f string, a ...any)   { c.logs = append(c.logs, fmt.Sprintf(f, a...)) }
func (c *captureTB) Log(a ...any)              { c.logs = append(c.logs, fmt.Sprint(a...)) }
func (c *captureTB) Skipf(f string, a ...any)  { panic(failNow{}) }
func (c *captureTB) Skip(a ...any)             { panic(failNow{}) }
func (c *captureTB) SkipNow()                  { panic(failNow{}) }
func (c *captureTB) Errorf(f string, a ...any) { c.failed = true; c.Logf(f, a...) }
func (c *captureTB) Error(a ...any)            { c.failed = true; c.Log(a...) }
func (c *captureTB) Fatalf(f string, a ...any) { c.failed = true; c.Logf(f, a...); panic(failNow{}) }
func (c *captureTB) Fatal(a ...any)            { c.failed = true; c.Log(a...); panic(failNow{}) }
func (c *captureTB) FailNow()                  { c.failed = true; panic(failNow{}) }
func (c *captureTB) Fail()                     { c.failed = true }
func (c *captureTB) Failed() bool              { return c.failed }

func subSeed(seed int64, shard int, name string) uint64 {
	s := evid.Hash([]byte(fmt.Sprintf("%d/%d/%s", seed, shard, name)))
	if s == 0 {
		s = 1
	}
	// rapid takes uint64; keep it in the positive int64 range for readability
	return s >> 1
}

// Rapid runs a rapid property `checks` times with a seed derived from
// (VERIF_SEED, shard, name). kind names the replay format the property stores
// through h.Fail. A failure is shrunk by rapid; the shrunk case becomes the replay file.
func (h *Harness) Rapid(name string, checks int, prop func(rt *rapid.T)) {
	if h.stopped {
		return
	}
	flag.Set("rapid.checks", strconv.Itoa(checks))
	flag.Set("rapid.seed", strconv.FormatUint(subSeed(h.Seed, h.Shard, name), 10))
	flag.Set("rapid.nofailfile", "true")
	if os.Getenv("VERIF_SHRINKTIME") != "" {
		flag.Set("rapid.shrinktime", os.Getenv("VERIF_SHRINKTIME"))
	} else {
		flag.Set("rapid.shrinktime", "20s")
	}
	h.mu.Lock()
	h.last = nil
	h.mu.Unlock()
	tb := &captureTB{name: "verif-" + h.Prop + "-" + name}
	func() {
		defer func() {
			if r := recover(); r != nil {
				if _, ok := r.(failNow); !ok {
					tb.failed = true
					tb.Logf("harness panic: %v\n%s", r, debug.Stack())
				}
			}
		}()
		rapid.Check(tb, prop)
	}()
	if !tb.failed {
		return
	}
	h.mu.Lock()
	last := h.last
	h.mu.Unlock()
	if last == nil {
		// rapid failed for a reason that is not an oracle verdict (generator error,
		// panic in the harness): infrastructure trouble, not a violation.
		fmt.Printf("HARNESS-ERROR property=%s sub=%s\n%s\n", h.Prop, name, strings.Join(tb.logs, "\n"))
		h.t.Errorf("harness error in %s/%s", h.Prop, name)
		return
	}
	f := &Failure{Key: last.Key, Detail: last.Detail}
	var c any = last.Case
	h.violation(h.writeReplay(last.Kind, c, f), f)
	for _, l := range tb.logs {
		if strings.Contains(l, "[rapid]") {
			fmt.Println("  " + strings.SplitN(l, "\n", 2)[0])
		}
	}
}

// Finish writes the evidence part and fails the Go test when violations were found.
func (h *Harness) Finish() {
	if err := h.Col.WritePart(); err != nil {
		fmt.Printf("HARNESS-ERROR property=%s cannot write evidence part: %v\n", h.Prop, err)
		h.t.Errorf("evidence: %v", err)
	}
	if h.viol > 0 {
		h.t.Errorf("%d violation(s) of %s", h.viol, h.Prop)
	}
	// a few infrastructure hiccups among thousands of cases do not make the run inconclusive; many do
	if h.trouble > 3 && int64(h.trouble)*50 > h.Col.Evals() {
		h.t.Errorf("%d harness errors in %d cases of %s", h.trouble, h.Col.Evals(), h.Prop)
	}
}

// TestReplay evaluates the file named by VERIF_REPLAY with the plain oracle.
func TestReplay(t *testing.T) {
	path := os.Getenv("VERIF_REPLAY")
	if path == "" {
		t.Skip("VERIF_REPLAY not set")
	}
	b, err := os.ReadFile(path)
	if err != nil {
		t.Fatal(err)
	}
	var r Replay
	if err := json.Unmarshal(b, &r); err != nil {
		t.Fatal(err)
	}
	fn, ok := kinds[r.Kind]
	if !ok {
		t.Fatalf("unknown kind %q", r.Kind)
	}
	if f := fn(r.Case); f != nil {
		fmt.Printf("VIOLATION property=%s replay=%s\n  key: %s\n  detail: %s\n", r.Property, path, f.Key, f.Detail)
		t.Fail()
		return
	}
	fmt.Printf("REPLAY-PASS property=%s replay=%s\n", r.Property, path)
}

func maxViol() int {
	if s := os.Getenv("VERIF_MAXVIOL"); s != "" {
		if n, err := strconv.Atoi(s); err == nil {
			return n
		}
	}
	return 5
}
