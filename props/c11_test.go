package props

import (
	"errors"
	"fmt"
	"sort"
	"strings"
	"testing"

	"pgregory.net/rapid"

	"verif/internal/cmdspec"
	"verif/internal/connsim"
	"verif/internal/resp"
)

// ---- C11: a request is executed only if it was received completely ----

type c11Case struct {
	Reqs     [][]*resp.Bin `json:"reqs"`
	Cut      int           `json:"cut"`   // the stream ends after this many bytes
	Close    string        `json:"close"` // half | full
	GetMode  string        `json:"get_mode,omitempty"`
	GetValue string        `json:"get_value,omitempty"`
	// CloseErr: the transport's Close reports an error although it closes (tls.Conn: close_notify could not be sent)
	CloseErr bool `json:"close_err,omitempty"`
	// SecondRun: the server object has been started, stopped and started again before the connection arrives
	SecondRun bool `json:"second_run,omitempty"`
}

// evalC11 serves the prefix data[:cut]. The reference is the same server fed only
// the requests that were delivered completely: call log and replies must be equal.
func evalC11(c c11Case) *Failure {
	pc := pipeCase{Reqs: c.Reqs, GetMode: c.GetMode, GetValue: c.GetValue}
	vals := pc.values()
	data, ends := resp.EncodeAll(vals)
	if c.Cut < 0 || c.Cut > len(data) {
		return failf("replay|bad-case", "cut %d outside the %d-byte stream", c.Cut, len(data))
	}
	k := 0
	for k < len(ends) && ends[k] <= c.Cut {
		k++
	}
	what := fmt.Sprintf("pipeline %v cut at byte %d of %d (%s close); %d requests were delivered completely", pc.strings(), c.Cut, len(data), c.Close, k)

	tested := false
	run := func(stream []byte, full bool, gone bool) (calls []string, frames []resp.Value, out []byte, fl *Failure, inRegistry bool, closes int) {
		srv, rec := newRecServer()
		srv.SetAuthCommandHandler(rec)
		rec.ResultFn = pc.resultFn()
		conn := connsim.NewPreloaded(1, [][]byte{stream})
		conn.FullClose = full
		if tested && c.CloseErr {
			conn.CloseErr = errors.New("tls: failed to send closeNotify alert (but connection was closed anyway)")
		}
		if tested && c.SecondRun {
			srv.SetPort(0)
			if err := srv.Start(); err != nil {
				return nil, nil, nil, failf("harness|start", "%v", err), false, 0
			}
			srv.Stop()
			if err := srv.Start(); err != nil {
				return nil, nil, nil, failf("harness|start", "%v", err), false, 0
			}
			defer srv.Stop()
		}
		if gone {
			conn.WriteFailAfter = 0 // the peer went away right after sending: no reply can be written at all
		}
		o := connsim.Serve(srv, conn, serveTimeout())
		if o.TimedOut {
			return nil, nil, nil, stallFailure("c11", what), false, 0
		}
		if o.Panic != nil {
			return nil, nil, nil, failf("c11|panic|"+panicKey(o), "%s: panic: %v", what, o.Panic), false, 0
		}
		for _, cl := range rec.Snapshot() {
			str := callStrNoTime(cl)
			if cl.Method == "Get" && cl.Frames < len(c.Reqs) && pc.cmdName(cl.Frames) == "MSETNX" {
				str = "Get(<some key of the MSETNX>)" // which key is examined first is unspecified (map order)
			}
			calls = append(calls, fmt.Sprintf("%s#%d", str, cl.Frames))
		}
		// calls of one request may come in any order (the framework iterates Go maps for MSET/HMSET): order within a request is not compared
		sort.SliceStable(calls, func(i, j int) bool {
			fi, fj := calls[i][strings.LastIndex(calls[i], "#"):], calls[j][strings.LastIndex(calls[j], "#"):]
			if fi != fj {
				return false
			}
			return calls[i] < calls[j]
		})
		frames, _, err := conn.Frames()
		if _, bad := err.(*resp.InvalidError); bad {
			return nil, nil, nil, failf("c11|frames", "%s: malformed reply stream %q", what, clip(conn.Out())), false, 0
		}
		return calls, frames, conn.Out(), nil, len(srv.Conns()) > 0, conn.Closes()
	}

	wantCalls, wantFrames, _, fl, _, _ := run(data[:func() int {
		if k == 0 {
			return 0
		}
		return ends[k-1]
	}()], false, false)
	if fl != nil {
		return fl
	}
	tested = true
	if c.CloseErr {
		what += "; the transport's Close reports an error"
	}
	if c.SecondRun {
		what += "; second run of the server object"
	}
	gotCalls, gotFrames, out, fl, inReg, closes := run(data[:c.Cut], c.Close == "full", c.Close == "gone")
	if fl != nil {
		return fl
	}
	if c.Close == "gone" {
		// no reply can be written, so calls cannot be attributed to requests by the number of replies: compare the sequence only
		strip := func(cs []string) []string {
			out := make([]string, len(cs))
			for i, x := range cs {
				out[i] = x[:strings.LastIndex(x, "#")]
			}
			sort.Strings(out)
			return out
		}
		gotCalls, wantCalls = strip(gotCalls), strip(wantCalls)
	}
	// QUIT among the complete requests ends everything there; the reference run handles it identically.
	if fmt.Sprint(gotCalls) != fmt.Sprint(wantCalls) {
		return failf("c11|calls", "%s: handler calls %v, but the completely received requests alone produce %v", what, gotCalls, wantCalls)
	}
	if c.Close == "half" {
		if len(gotFrames) != len(wantFrames) {
			return failf("c11|replies", "%s: %d replies, the completely received requests produce %d: %q", what, len(gotFrames), len(wantFrames), clip(out))
		}
	} else if len(gotFrames) > len(wantFrames) {
		return failf("c11|replies", "%s: %d replies, more than the %d of the completely received requests: %q", what, len(gotFrames), len(wantFrames), clip(out))
	}
	for i := range gotFrames {
		if i < len(wantFrames) && !gotFrames[i].Equal(wantFrames[i]) {
			// replies carry call sequence numbers, which are equal in both runs
			return failf("c11|replies", "%s: reply %d is %s, want %s", what, i, gotFrames[i], wantFrames[i])
		}
	}
	if inReg {
		return failf("c11|registry", "%s: the connection is still in the registry after the connection loop returned", what)
	}
	if closes == 0 {
		return failf("c11|not-closed", "%s: the connection was not closed", what)
	}
	return nil
}

func init() { register("c11.cut", evalC11) }

func TestC11(t *testing.T) {
	h := newHarness(t, "C11", "pipelines of 1..5 well-formed requests from the grammar (every command, options, binary arguments) x EVERY byte offset of the encoded stream as the point where the stream ends x {half-close, full close after the last byte, peer already gone (every reply write fails)} x {ordinary transport on a fresh server, transport whose Close reports an error although it closes (as tls.Conn when close_notify cannot be sent), server object started-stopped-started before}. "+
		"Oracle (differential): the handler-call log and the replies equal those of the same server fed only the requests whose last byte lies before the cut; the loop returns, closes the connection and leaves the registry. "+
		"Non-trivial: the cut lies strictly inside a request and at least one request precedes it. Distinct = distinct (stream, cut, close mode).")
	defer h.Finish()
	h.Probes()

	h.Rapid("cuts", h.N(500, 6000), func(rt *rapid.T) {
		g := &cmdspec.G{T: rt, Avoid: h.Avoid}
		n := rapid.IntRange(1, 5).Draw(rt, "n")
		c := c11Case{}
		for i := 0; i < n; i++ {
			name := rapid.SampledFrom(cmdspec.Names).Draw(rt, "cmd")
			if name == "QUIT" && rapid.IntRange(0, 3).Draw(rt, "keepquit") != 0 {
				name = "LPOP"
			}
			in := g.Gen(name)
			c.Reqs = append(c.Reqs, binPtrs(in.Args))
		}
		c.GetMode = rapid.SampledFrom([]string{"", cmdspec.GetNull, cmdspec.GetInt}).Draw(rt, "getmode")
		if c.GetMode == cmdspec.GetInt {
			c.GetValue = "7"
		}
		// per pipeline: an ordinary transport and a fresh server, or a transport whose Close reports an error, or a server object in its second run
		switch rapid.IntRange(0, 3).Draw(rt, "env") {
		case 0:
			c.CloseErr = true
		case 1:
			c.SecondRun = true
		}
		pc := pipeCase{Reqs: c.Reqs}
		data, ends := resp.EncodeAll(pc.values())
		if len(data) > 400 {
			return
		}
		hasMSetNX := false
		for i := range pc.Reqs {
			if pc.cmdName(i) == "MSETNX" {
				hasMSetNX = true
			}
		}
		isEnd := map[int]bool{0: true}
		for _, e := range ends {
			isEnd[e] = true
		}
		inPrefix, betweenCRLF, _ := resp.InterestingCuts(data)
		cls := map[int]string{}
		for _, x := range inPrefix {
			cls[x] = "cut-in-length-or-count"
		}
		for _, x := range betweenCRLF {
			cls[x] = "cut-between-CR-LF"
		}
		for cut := 0; cut <= len(data); cut++ {
			modes := []string{"half", "full", "gone"}
			if hasMSetNX {
				// without replies the calls of a request cannot be told apart from its neighbours', and which key MSETNX
				// examines first is unspecified: the "gone" mode is not judged for pipelines containing MSETNX
				modes = modes[:2]
			}
			for _, mode := range modes {
				cc := c
				cc.Cut, cc.Close = cut, mode
				k := 0
				for k < len(ends) && ends[k] <= cut {
					k++
				}
				class := cls[cut]
				if isEnd[cut] {
					class = "cut-at-boundary"
				} else if class == "" {
					class = "cut-in-body"
				}
				h.Col.Case(!isEnd[cut] && k >= 1, append(append([]byte{}, data...), []byte(fmt.Sprintf("|%d|%s|%s|%v|%v", cut, mode, c.GetMode, c.CloseErr, c.SecondRun))...), class, "close:"+mode)
				if h.Col.WantSample() {
					h.Col.Sample(map[string]any{"requests": pc.strings(), "cut": cut, "stream_len": len(data), "close": mode})
				}
				h.Fail(rt, "c11.cut", cc, evalC11(cc))
			}
		}
	})
}
