package props

import (
	"errors"
	"fmt"
	"net"
	"sort"
	"strconv"
	"strings"
	"testing"
	"time"

	"pgregory.net/rapid"

	"verif/internal/cmdspec"
	"verif/internal/connsim"
	"verif/internal/doubles"
	"verif/internal/resp"
)

// ---- C11: a request is executed only if it was received completely ----

type c11Case struct {
	Reqs     [][]*resp.Bin `json:"reqs"`
	Cut      int           `json:"cut"`   // the stream ends after this many bytes
	Close    string        `json:"close"` // half | full
	GetMode  string        `json:"get_mode,omitempty"`
	GetValue string        `json:"get_value,omitempty"`
	// CloseErr: the transport's Close reports an error although it closes (tls.Conn: close_notify could not be sent)
	CloseErr bool `json:"close_err,omitempty"`
	// SecondRun: the server object has been started, stopped and started again before the connection arrives
	SecondRun bool `json:"second_run,omitempty"`
	// EOFWithData: the transport reports the end of the stream together with the last bytes
	EOFWithData bool `json:"eof_with_data,omitempty"`
	// Lines > 0: one more request is appended, SET doc <value>, whose value is that many 64-byte lines ending in CR LF
	// (kept out of the replay file)
	Lines int `json:"lines,omitempty"`
	// Inline: the requests are sent as inline commands (one line of space-separated words each) instead of RESP arrays;
	// a server that does not speak the inline form rejects them all, one that does must not run a command from a cut line
	Inline bool `json:"inline,omitempty"`
}

func c11Doc(lines int) []byte {
	var b []byte
	for i := 0; i < lines; i++ {
		b = append(b, []byte(fmt.Sprintf("line %06d ..................................................\r\n", i))...)
	}
	return b
}

// evalC11 serves the prefix data[:cut]. The reference is the same server fed only
// the requests that were delivered completely: call log and replies must be equal.
func evalC11(c c11Case) *Failure {
	pc := pipeCase{Reqs: c.Reqs, GetMode: c.GetMode, GetValue: c.GetValue}
	if c.Lines > 0 {
		pc.Reqs = append(append([][]*resp.Bin{}, c.Reqs...), binPtrs([][]byte{[]byte("SET"), []byte("doc"), c11Doc(c.Lines)}))
	}
	vals := pc.values()
	data, ends := resp.EncodeAll(vals)
	if c.Inline {
		// one line per request; a request is complete when its CR LF has been delivered
		data, ends = nil, nil
		for _, r := range pc.Reqs {
			for i, a := range r {
				if i > 0 {
					data = append(data, ' ')
				}
				data = append(data, *a...)
			}
			data = append(data, '\r', '\n')
			ends = append(ends, len(data))
		}
	}
	if c.Cut < 0 || c.Cut > len(data) {
		return failf("replay|bad-case", "cut %d outside the %d-byte stream", c.Cut, len(data))
	}
	k := 0
	for k < len(ends) && ends[k] <= c.Cut {
		k++
	}
	what := fmt.Sprintf("pipeline %v cut at byte %d of %d (%s close); %d requests were delivered completely", pc.strings(), c.Cut, len(data), c.Close, k)

	tested := false
	run := func(stream []byte, full bool, gone bool) (calls []string, frames []resp.Value, out []byte, fl *Failure, inRegistry bool, closes int) {
		srv, rec := newRecServer()
		srv.SetAuthCommandHandler(rec)
		rec.ResultFn = pc.resultFn()
		conn := connsim.NewPreloaded(1, [][]byte{stream})
		conn.FullClose = full
		if tested && c.EOFWithData {
			conn.EOFWithData = true
		}
		if tested && c.CloseErr {
			conn.CloseErr = errors.New("tls: failed to send closeNotify alert (but connection was closed anyway)")
		}
		if tested && c.SecondRun {
			srv.SetPort(0)
			if err := srv.Start(); err != nil {
				return nil, nil, nil, failf("harness|start", "%v", err), false, 0
			}
			srv.Stop()
			if err := srv.Start(); err != nil {
				return nil, nil, nil, failf("harness|start", "%v", err), false, 0
			}
			defer srv.Stop()
		}
		if gone {
			conn.WriteFailAfter = 0 // the peer went away right after sending: no reply can be written at all
		}
		o := connsim.Serve(srv, conn, serveTimeout())
		if o.TimedOut {
			return nil, nil, nil, stallFailure("c11", what), false, 0
		}
		if o.Panic != nil {
			return nil, nil, nil, failf("c11|panic|"+panicKey(o), "%s: panic: %v", what, o.Panic), false, 0
		}
		for _, cl := range rec.Snapshot() {
			str := callStrNoTime(cl)
			if cl.Method == "Get" && cl.Frames < len(c.Reqs) && pc.cmdName(cl.Frames) == "MSETNX" {
				str = "Get(<some key of the MSETNX>)" // which key is examined first is unspecified (map order)
			}
			calls = append(calls, fmt.Sprintf("%s#%d", str, cl.Frames))
		}
		// calls of one request may come in any order (the framework iterates Go maps for MSET/HMSET): order within a request is not compared
		sort.SliceStable(calls, func(i, j int) bool {
			fi, fj := calls[i][strings.LastIndex(calls[i], "#"):], calls[j][strings.LastIndex(calls[j], "#"):]
			if fi != fj {
				return false
			}
			return calls[i] < calls[j]
		})
		frames, _, err := conn.Frames()
		if _, bad := err.(*resp.InvalidError); bad {
			return nil, nil, nil, failf("c11|frames", "%s: malformed reply stream %q", what, clip(conn.Out())), false, 0
		}
		return calls, frames, conn.Out(), nil, len(srv.Conns()) > 0, conn.Closes()
	}

	wantCalls, wantFrames, _, fl, _, _ := run(data[:func() int {
		if k == 0 {
			return 0
		}
		return ends[k-1]
	}()], false, false)
	if fl != nil {
		return fl
	}
	tested = true
	if c.CloseErr {
		what += "; the transport's Close reports an error"
	}
	if c.SecondRun {
		what += "; second run of the server object"
	}
	if c.EOFWithData {
		what += "; end of stream reported together with the last bytes"
	}
	gotCalls, gotFrames, out, fl, inReg, closes := run(data[:c.Cut], c.Close == "full", c.Close == "gone")
	if fl != nil {
		return fl
	}
	if c.Close == "gone" {
		// no reply can be written, so calls cannot be attributed to requests by the number of replies: compare the sequence only
		strip := func(cs []string) []string {
			out := make([]string, len(cs))
			for i, x := range cs {
				out[i] = x[:strings.LastIndex(x, "#")]
			}
			sort.Strings(out)
			return out
		}
		gotCalls, wantCalls = strip(gotCalls), strip(wantCalls)
	}
	// QUIT among the complete requests ends everything there; the reference run handles it identically.
	if fmt.Sprint(gotCalls) != fmt.Sprint(wantCalls) {
		return failf("c11|calls", "%s: handler calls %v, but the completely received requests alone produce %v", what, gotCalls, wantCalls)
	}
	if c.Close == "half" {
		if len(gotFrames) != len(wantFrames) {
			return failf("c11|replies", "%s: %d replies, the completely received requests produce %d: %q", what, len(gotFrames), len(wantFrames), clip(out))
		}
	} else if len(gotFrames) > len(wantFrames) {
		return failf("c11|replies", "%s: %d replies, more than the %d of the completely received requests: %q", what, len(gotFrames), len(wantFrames), clip(out))
	}
	for i := range gotFrames {
		if i < len(wantFrames) && !gotFrames[i].Equal(wantFrames[i]) {
			// replies carry call sequence numbers, which are equal in both runs
			return failf("c11|replies", "%s: reply %d is %s, want %s", what, i, gotFrames[i], wantFrames[i])
		}
	}
	if inReg {
		return failf("c11|registry", "%s: the connection is still in the registry after the connection loop returned", what)
	}
	if closes == 0 {
		return failf("c11|not-closed", "%s: the connection was not closed", what)
	}
	return nil
}

// c11TCP: the same on a real TCP connection through the accept loop: the client pipelines N requests with large replies
// and a partial request, half-closes and only then reads, slowly. Every completely received request is answered - the
// client receives the N complete replies - and then the stream ends without the partial request having been executed.
type c11TCP struct {
	N        int `json:"n"`         // complete requests
	ReplyLen int `json:"reply_len"` // bytes of each reply's payload
	DelayMS  int `json:"delay_ms"`  // the client starts reading this long after its half-close
	// Quit: instead of a partial request and a half-close the client ends its pipeline with QUIT (and keeps its sending side open)
	Quit bool `json:"quit,omitempty"`
}

func evalC11TCP(c c11TCP) *Failure {
	srv, rec := newRecServer()
	big := strings.Repeat("r", c.ReplyLen)
	rec.ResultFn = func(cl *doubles.Call) doubles.Result {
		v := resp.B(big)
		return doubles.Result{Val: &v}
	}
	port, _, err := startOnFreePorts(srv, false)
	if err != nil {
		return failf("harness|start", "Start: %v", err)
	}
	defer srv.Stop()
	what := fmt.Sprintf("TCP client pipelines %d GETs (replies of %d bytes) and a partial request, half-closes, reads after %d ms", c.N, c.ReplyLen, c.DelayMS)
	conn, err := net.DialTimeout("tcp", fmt.Sprintf("127.0.0.1:%d", port), 10*time.Second)
	if err != nil {
		return failf("harness|dial", "%v", err)
	}
	defer conn.Close()
	var req []byte
	for i := 0; i < c.N; i++ {
		req = append(req, resp.Cmd("GET", fmt.Sprintf("k%d", i)).Bytes()...)
	}
	if c.Quit {
		req = append(req, resp.Cmd("QUIT").Bytes()...)
	} else {
		req = append(req, []byte("*2\r\n$3\r\nGET\r\n$7\r\npart")...)
	}
	go func() {
		conn.Write(req)
		if !c.Quit {
			conn.(*net.TCPConn).CloseWrite()
		}
	}()
	time.Sleep(time.Duration(c.DelayMS) * time.Millisecond)
	conn.SetReadDeadline(time.Now().Add(60 * time.Second))
	var got []byte
	buf := make([]byte, 64*1024)
	var rerr error
	for {
		n, err := conn.Read(buf)
		got = append(got, buf[:n]...)
		if err != nil {
			rerr = err
			break
		}
		time.Sleep(200 * time.Microsecond) // a slow reader
	}
	frames, _, derr := resp.DecodeAll(got)
	if c.Quit {
		if len(frames) != c.N+1 || !frames[c.N].Equal(resp.S("OK")) {
			return failf("c11|replies", "%s (QUIT last): received %d complete replies (%d bytes, then %v; tail %v), want the %d replies and +OK", what, len(frames), len(got), rerr, derr, c.N)
		}
		frames = frames[:c.N]
	}
	if len(frames) != c.N {
		return failf("c11|replies", "%s: received %d complete replies (%d bytes, then %v; tail %v), the %d completely received requests produce %d", what, len(frames), len(got), rerr, derr, c.N, c.N)
	}
	for i, f := range frames {
		if !f.Equal(resp.B(big)) {
			return failf("c11|replies", "%s: reply %d is not the value the handler returned", what, i)
		}
	}
	if derr != nil {
		return failf("c11|replies", "%s: bytes after the last complete reply: %v", what, derr)
	}
	for _, cl := range rec.Snapshot() {
		if len(cl.Args) > 0 && strings.HasPrefix(cl.Args[0], "part") {
			return failf("c11|calls", "%s: the partial request was executed: %s", what, callStr(cl))
		}
	}
	if n := len(rec.Snapshot()); n != c.N {
		return failf("c11|calls", "%s: %d handler calls for %d complete requests", what, n, c.N)
	}
	return nil
}

func init() {
	register("c11.cut", evalC11)
	register("c11.tcp", evalC11TCP)
}

func TestC11(t *testing.T) {
	h := newHarness(t, "C11", "pipelines of 1..5 well-formed requests from the grammar (every command, options, binary arguments) x EVERY byte offset of the encoded stream as the point where the stream ends x {half-close, full close after the last byte, peer already gone (every reply write fails)} x {ordinary transport on a fresh server, transport whose Close reports an error although it closes (as tls.Conn when close_notify cannot be sent), server object started-stopped-started before, transport that reports the end of the stream together with the last bytes}. "+
		"Plus, on a real TCP connection through the accept loop: N requests with replies of up to 1 MiB each and a partial request, half-close, then a slow reader: all N replies arrive complete. "+
		"Plus a ~70 KiB value made of CR LF terminated lines cut right behind its embedded line ends, and pipelines of inline commands (lines of words) cut at every offset. "+
		"Oracle (differential): the handler-call log and the replies equal those of the same server fed only the requests whose last byte lies before the cut; the loop returns, closes the connection and leaves the registry. "+
		"Non-trivial: the cut lies strictly inside a request and at least one request precedes it. Distinct = distinct (stream, cut, close mode).")
	defer h.Finish()
	h.Probes()

	// real TCP through the accept loop: replies beyond what the socket buffers hold, read after the half-close
	if h.Shard == 0 {
		cases := []c11TCP{{N: 24, ReplyLen: 1 << 20, DelayMS: 300}, {N: 3, ReplyLen: 100, DelayMS: 50}}
		if h.Thorough() {
			cases = append(cases, c11TCP{N: 200, ReplyLen: 1 << 18, DelayMS: 1000}, c11TCP{N: 2000, ReplyLen: 4096, DelayMS: 100})
		}
		for _, c := range cases {
			h.Col.Case(true, []byte(fmt.Sprint("tcp", c)), "tcp-half-close-slow-reader")
			h.Report("c11.tcp", c, evalC11TCP(c))
		}
	}

	// a value of ~70 KiB made of CR LF terminated lines, cut right behind its embedded CR LFs (and elsewhere)
	h.Rapid("large-values", h.N(6, 200), func(rt *rapid.T) {
		c := c11Case{Reqs: [][]*resp.Bin{binPtrs([][]byte{[]byte("PING")})[0:1]}, Lines: rapid.SampledFrom([]int{1030, 1100, 2100}).Draw(rt, "lines")}
		c.Reqs = [][]*resp.Bin{binPtrs([][]byte{[]byte("PING")})}
		head := len(resp.Cmd("PING").Bytes()) + len("*3\r\n$3\r\nSET\r\n$3\r\ndoc\r\n$") + len(strconv.Itoa(64*c.Lines)) + 2
		var cuts []int
		for _, l := range []int{1, 2, 17, 500, 1023, 1024, 1025, c.Lines - 1, c.Lines} {
			if l <= c.Lines {
				cuts = append(cuts, head+64*l)
			}
		}
		for i := 0; i < 12; i++ {
			cuts = append(cuts, head+64*rapid.IntRange(1, c.Lines).Draw(rt, "line"), head+rapid.IntRange(0, 64*c.Lines+2).Draw(rt, "offset"))
		}
		for _, cut := range cuts {
			for _, mode := range []string{"half", "full"} {
				cc := c
				cc.Cut, cc.Close = cut, mode
				h.Col.Case(true, []byte(fmt.Sprint("doc", c.Lines, cut, mode)), "large-value", "close:"+mode)
				h.Fail(rt, "c11.cut", cc, evalC11(cc))
			}
		}
	})

	// inline commands (lines of words instead of RESP arrays), cut at every offset
	h.Rapid("inline", h.N(60, 2000), func(rt *rapid.T) {
		c := c11Case{Inline: true}
		for i, n := 0, rapid.IntRange(1, 3).Draw(rt, "n"); i < n; i++ {
			words := rapid.SampledFrom([][]string{{"SET", "balance", "1000000"}, {"GET", "balance"}, {"INCRBY", "n", "250"}, {"DEL", "a", "bb", "ccc"}, {"PING"}, {"EXPIRE", "k", "3600"}, {"LPUSH", "l", "x1", "x22"}}).Draw(rt, "words")
			var bs [][]byte
			for _, w := range words {
				bs = append(bs, []byte(w))
			}
			c.Reqs = append(c.Reqs, binPtrs(bs))
		}
		total := 0
		for _, r := range c.Reqs {
			for _, a := range r {
				total += len(*a) + 1
			}
			total++
		}
		for cut := 0; cut <= total; cut++ {
			for _, mode := range []string{"half", "full"} {
				cc := c
				cc.Cut, cc.Close = cut, mode
				h.Col.Case(true, []byte(fmt.Sprint("inline", pipeCase{Reqs: c.Reqs}.strings(), cut, mode)), "inline-commands", "close:"+mode)
				h.Fail(rt, "c11.cut", cc, evalC11(cc))
			}
		}
	})

	h.Rapid("cuts", h.N(500, 6000), func(rt *rapid.T) {
		g := &cmdspec.G{T: rt, Avoid: h.Avoid}
		n := rapid.IntRange(1, 5).Draw(rt, "n")
		c := c11Case{}
		for i := 0; i < n; i++ {
			name := rapid.SampledFrom(cmdspec.Names).Draw(rt, "cmd")
			if name == "QUIT" && rapid.IntRange(0, 3).Draw(rt, "keepquit") != 0 {
				name = "LPOP"
			}
			in := g.Gen(name)
			c.Reqs = append(c.Reqs, binPtrs(in.Args))
		}
		c.GetMode = rapid.SampledFrom([]string{"", cmdspec.GetNull, cmdspec.GetInt}).Draw(rt, "getmode")
		if c.GetMode == cmdspec.GetInt {
			c.GetValue = "7"
		}
		// per pipeline: an ordinary transport and a fresh server, or a transport whose Close reports an error, or a server object in its second run
		switch rapid.IntRange(0, 4).Draw(rt, "env") {
		case 0:
			c.CloseErr = true
		case 1:
			c.SecondRun = true
		case 2:
			c.EOFWithData = true
		}
		pc := pipeCase{Reqs: c.Reqs}
		data, ends := resp.EncodeAll(pc.values())
		if len(data) > 400 {
			return
		}
		hasMSetNX := false
		for i := range pc.Reqs {
			if pc.cmdName(i) == "MSETNX" {
				hasMSetNX = true
			}
		}
		isEnd := map[int]bool{0: true}
		for _, e := range ends {
			isEnd[e] = true
		}
		inPrefix, betweenCRLF, _ := resp.InterestingCuts(data)
		cls := map[int]string{}
		for _, x := range inPrefix {
			cls[x] = "cut-in-length-or-count"
		}
		for _, x := range betweenCRLF {
			cls[x] = "cut-between-CR-LF"
		}
		for cut := 0; cut <= len(data); cut++ {
			modes := []string{"half", "full", "gone"}
			if hasMSetNX {
				// without replies the calls of a request cannot be told apart from its neighbours', and which key MSETNX
				// examines first is unspecified: the "gone" mode is not judged for pipelines containing MSETNX
				modes = modes[:2]
			}
			for _, mode := range modes {
				cc := c
				cc.Cut, cc.Close = cut, mode
				k := 0
				for k < len(ends) && ends[k] <= cut {
					k++
				}
				class := cls[cut]
				if isEnd[cut] {
					class = "cut-at-boundary"
				} else if class == "" {
					class = "cut-in-body"
				}
				h.Col.Case(!isEnd[cut] && k >= 1, append(append([]byte{}, data...), []byte(fmt.Sprintf("|%d|%s|%s|%v|%v|%v", cut, mode, c.GetMode, c.CloseErr, c.SecondRun, c.EOFWithData))...), class, "close:"+mode)
				if h.Col.WantSample() {
					h.Col.Sample(map[string]any{"requests": pc.strings(), "cut": cut, "stream_len": len(data), "close": mode})
				}
				h.Fail(rt, "c11.cut", cc, evalC11(cc))
			}
		}
	})
}
