package props

import (
	"bytes"
	"errors"
	"fmt"
	"math"
	"strconv"
	"testing"

	"github.com/cybergarage/go-redis/redis"
	"github.com/cybergarage/go-redis/redis/proto"
	"pgregory.net/rapid"

	"verif/internal/resp"
)

// ---- C01: RESP values survive encode/decode; bulk payloads are binary-safe ----

type c01Tree struct {
	V resp.Value `json:"value"`
}

func c01Nontrivial(v resp.Value) bool {
	nt := false
	if v.Depth() >= 2 {
		nt = true
	}
	var walk func(x resp.Value, inArray bool)
	walk = func(x resp.Value, inArray bool) {
		if x.Kind == resp.Bulk {
			if inArray && (x.Null || len(x.Data) == 0) {
				nt = true
			}
			if len(x.Data) >= 4096 || bytes.ContainsAny(x.Data, "\r\n\x00+-:$*") {
				nt = true
			}
		}
		for _, e := range x.Elems {
			walk(e, true)
		}
	}
	walk(v, false)
	return nt
}

// evalC01Tree checks the four round-trip relations for one value tree.
func evalC01Tree(c c01Tree) (fl *Failure) {
	defer func() {
		if r := recover(); r != nil {
			fl = failf("c01|panic", "panic: %v", r)
		}
	}()
	v := c.V
	want := v.Bytes()
	// (1) library-built message serializes to the canonical bytes
	got, err := toMsg(v).RESPBytes()
	if err != nil {
		return failf("c01|serialize|error", "RESPBytes of a built %s failed: %v", v, err)
	}
	if !bytes.Equal(got, want) {
		return failf("c01|serialize|bytes", "RESPBytes of built %s = %q, canonical encoding is %q", v, clip(got), clip(want))
	}
	// (1a) the bytes handed out belong to the caller: serializing another value afterwards does not change them
	keep := append([]byte{}, got...)
	if _, err := toMsg(resp.A(resp.B("another value"), resp.I(12345), resp.S("OK"))).RESPBytes(); err == nil && !bytes.Equal(got, keep) {
		return failf("c01|serialize|aliased", "the bytes returned for %s changed from %q to %q when another value was serialized", v, clip(keep), clip(got))
	}
	// (1b) scalars built without the constructors: a struct literal, and a message whose exported Type is set afterwards
	if v.Kind != resp.Array && !(v.Kind == resp.Bulk && v.Null) {
		t := toMsg(v).Type
		lit := (&proto.Message{Type: t}).SetBytes(append([]byte{}, v.Data...))
		if b, err := lit.RESPBytes(); err != nil || !bytes.Equal(b, want) {
			return failf("c01|serialize|literal", "RESPBytes of &proto.Message{Type: %v} with payload %q = %q, %v; canonical encoding is %q", t, clip(v.Data), clip(b), err, clip(want))
		}
		other := proto.StringMessage
		if t == proto.StringMessage {
			other = proto.ErrorMessage
		}
		re := proto.NewMessageWithType(other).SetBytes(append([]byte{}, v.Data...))
		re.Type = t
		if b, err := re.RESPBytes(); err != nil || !bytes.Equal(b, want) {
			return failf("c01|serialize|retyped", "RESPBytes of a message whose Type was set to %v after its construction = %q, %v; canonical encoding is %q", t, clip(b), err, clip(want))
		}
	}
	// (2) canonical bytes parse to the same tree, then clean end of stream
	p := proto.NewParserWithBytes(append([]byte{}, want...))
	m, err := p.Next()
	if err != nil {
		return failf("c01|parse|error", "parsing the canonical encoding of %s failed: %v", v, err)
	}
	back, err := fromMsg(m)
	if err != nil {
		return failf("c01|parse|shape", "parsed form of %s is malformed: %v", v, err)
	}
	if !back.Equal(v) {
		return failf("c01|parse|value", "parsing %q gave %s, want %s", clip(want), back, v)
	}
	if m2, err := p.Next(); m2 != nil || err != nil {
		return failf("c01|parse|tail", "after the only value of %q the parser returned (%v, %v), want end of stream", clip(want), m2, err)
	}
	// (3) parsed value re-serializes to the input bytes
	p = proto.NewParserWithBytes(append([]byte{}, want...))
	m, _ = p.Next()
	re, err := m.RESPBytes()
	if err != nil {
		return failf("c01|reserialize|error", "re-serializing parsed %s failed: %v", v, err)
	}
	if !bytes.Equal(re, want) {
		return failf("c01|reserialize|bytes", "parse+serialize of %q gave %q", clip(want), clip(re))
	}
	// (4) serialization is a function of the value: serializing again, and after the value has been read
	// through its accessors (array cursors advanced, payloads fetched), gives the same bytes
	if re2, err := m.RESPBytes(); err != nil || !bytes.Equal(re2, want) {
		return failf("c01|reserialize|second", "serializing the parsed %s a second time gave %q, %v; the first time %q", v, clip(re2), err, clip(want))
	}
	if _, err := fromMsg(m); err != nil {
		return failf("c01|parse|shape", "parsed form of %s is malformed: %v", v, err)
	}
	walkArrays(m)
	if re3, err := m.RESPBytes(); err != nil || !bytes.Equal(re3, want) {
		return failf("c01|reserialize|after-reading", "serializing the parsed %s after its elements had been read gave %q, %v; before %q", v, clip(re3), err, clip(want))
	}
	return nil
}

// walkArrays reads every (nested) array through its cursor, leaving the cursors wherever reading leaves them.
func walkArrays(m *proto.Message) {
	if m == nil || !m.IsArray() {
		return
	}
	arr, err := m.Array()
	if err != nil || arr == nil {
		return
	}
	for i := 0; i < 1<<20; i++ {
		e, err := arr.Next()
		if err != nil || e == nil {
			return
		}
		walkArrays(e)
	}
}

func clip(b []byte) []byte {
	if len(b) > 160 {
		return append(append([]byte{}, b[:150]...), []byte(fmt.Sprintf("...(%d bytes)", len(b)))...)
	}
	return b
}

type c01Ctor struct {
	Ctor string     `json:"ctor"` // ok|string|error|integer|float|bulk|nil|strings
	I    int64      `json:"i,omitempty"`
	F    uint64     `json:"fbits,omitempty"`
	S    resp.Bin   `json:"s,omitempty"`
	Strs []resp.Bin `json:"strs,omitempty"`
}

// reparse sends a constructed message through the wire: serialize, check with the
// strict decoder, parse back with the library.
func reparse(m *proto.Message, what string) (*proto.Message, resp.Value, *Failure) {
	b, err := m.RESPBytes()
	if err != nil {
		return nil, resp.Value{}, failf("c01|ctor|serialize", "%s: RESPBytes failed: %v", what, err)
	}
	sv, n, err := resp.Decode(b)
	if err != nil || n != len(b) {
		return nil, resp.Value{}, failf("c01|ctor|not-canonical", "%s serialized to %q which is not one canonical RESP value (%v, used %d of %d)", what, clip(b), err, n, len(b))
	}
	pm, err := proto.NewParserWithBytes(b).Next()
	if err != nil || pm == nil {
		return nil, resp.Value{}, failf("c01|ctor|parse", "%s: parsing %q back failed: %v", what, clip(b), err)
	}
	return pm, sv, nil
}

func evalC01Ctor(c c01Ctor) (fl *Failure) {
	defer func() {
		if r := recover(); r != nil {
			fl = failf("c01|ctor|panic", "panic in %s: %v", c.Ctor, r)
		}
	}()
	switch c.Ctor {
	case "ok":
		pm, sv, f := reparse(redis.NewOKMessage(), "NewOKMessage()")
		if f != nil {
			return f
		}
		if s, err := pm.String(); err != nil || s != "OK" || sv.Kind != resp.Status {
			return failf("c01|ctor|ok", "NewOKMessage decodes to %s (%q, %v)", sv, s, err)
		}
	case "string":
		what := fmt.Sprintf("NewStringMessage(%q)", string(c.S))
		for _, m := range []*proto.Message{redis.NewStringMessage(string(c.S))} {
			pm, sv, f := reparse(m, what)
			if f != nil {
				return f
			}
			if s, err := pm.String(); err != nil || s != string(c.S) || sv.Kind != resp.Status {
				return failf("c01|ctor|string", "%s decodes to %s (%q, %v)", what, sv, s, err)
			}
			if s, err := m.String(); err != nil || s != string(c.S) {
				return failf("c01|ctor|string-direct", "%s.String() = %q, %v", what, s, err)
			}
		}
	case "error":
		what := fmt.Sprintf("NewErrorMessage(%q)", string(c.S))
		pm, sv, f := reparse(redis.NewErrorMessage(errors.New(string(c.S))), what)
		if f != nil {
			return f
		}
		e, err := pm.Error()
		if err != nil || e == nil || e.Error() != string(c.S) || sv.Kind != resp.Error {
			return failf("c01|ctor|error", "%s decodes to %s (%v, %v)", what, sv, e, err)
		}
	case "integer":
		what := fmt.Sprintf("NewIntegerMessage(%d)", c.I)
		m := redis.NewIntegerMessage(int(c.I))
		pm, sv, f := reparse(m, what)
		if f != nil {
			return f
		}
		n, err := pm.Integer()
		if err != nil || int64(n) != c.I || sv.Kind != resp.Integer {
			return failf("c01|ctor|integer", "%s decodes to %s (%d, %v)", what, sv, n, err)
		}
		if n, err := m.Integer(); err != nil || int64(n) != c.I {
			return failf("c01|ctor|integer-direct", "%s.Integer() = %d, %v", what, n, err)
		}
	case "float":
		fv := math.Float64frombits(c.F)
		what := fmt.Sprintf("NewFloatMessage(%v /*bits %#x*/)", fv, c.F)
		pm, sv, f := reparse(redis.NewFloatMessage(fv), what)
		if f != nil {
			return f
		}
		b, _ := pm.Bytes()
		back, err := strconv.ParseFloat(string(b), 64)
		if err != nil || back != fv || sv.Kind != resp.Bulk || sv.Null {
			return failf("c01|ctor|float", "%s decodes to %s -> %v (%v)", what, sv, back, err)
		}
	case "bulk":
		what := fmt.Sprintf("NewBulkMessage(%q)", clip(c.S))
		m := redis.NewBulkMessage(string(c.S))
		pm, sv, f := reparse(m, what)
		if f != nil {
			return f
		}
		s, err := pm.String()
		if err != nil || s != string(c.S) || sv.Kind != resp.Bulk || sv.Null || !bytes.Equal(sv.Data, c.S) || pm.IsNil() {
			return failf("c01|ctor|bulk", "%s decodes to %s (%q, %v)", what, sv, clip([]byte(s)), err)
		}
	case "nil":
		m := redis.NewNilMessage()
		pm, sv, f := reparse(m, "NewNilMessage()")
		if f != nil {
			return f
		}
		if !m.IsNil() || !pm.IsNil() || !sv.Null {
			return failf("c01|ctor|nil", "NewNilMessage decodes to %s (IsNil %v/%v)", sv, m.IsNil(), pm.IsNil())
		}
	case "strings":
		strs := make([]string, len(c.Strs))
		for i, s := range c.Strs {
			strs[i] = string(s)
		}
		what := fmt.Sprintf("NewStringArrayMessage(%q)", strs)
		pm, sv, f := reparse(redis.NewStringArrayMessage(strs), what)
		if f != nil {
			return f
		}
		arr, err := pm.Array()
		if err != nil || arr == nil || arr.Size() != len(strs) || sv.Kind != resp.Array {
			return failf("c01|ctor|strings-shape", "%s decodes to %s", what, sv)
		}
		for i, want := range strs {
			s, err := arr.NextString()
			if err != nil || s != want {
				return failf("c01|ctor|strings-elem", "%s: element %d decodes to %q, %v", what, i, s, err)
			}
		}
	default:
		return failf("replay|bad-case", "unknown ctor %q", c.Ctor)
	}
	return nil
}

func genFiniteFloatBits() *rapid.Generator[uint64] {
	special := []float64{0, math.Copysign(0, -1), 1, -1, 0.1, 1e21, 1e-7, math.MaxFloat64, -math.MaxFloat64,
		math.SmallestNonzeroFloat64, -math.SmallestNonzeroFloat64, 2.2250738585072014e-308, 2.2250738585072009e-308,
		9007199254740992, 9007199254740993, 1 << 62, -(1 << 63), 1.7976931348623157e308, 4.9e-324, 123456789.125, 3.0000000000000004}
	return rapid.Custom(func(t *rapid.T) uint64 {
		switch rapid.IntRange(0, 3).Draw(t, "fcls") {
		case 0:
			return math.Float64bits(rapid.SampledFrom(special).Draw(t, "fs"))
		case 1:
			return math.Float64bits(rapid.Float64().Draw(t, "f"))
		default:
			b := rapid.Uint64().Draw(t, "bits")
			if f := math.Float64frombits(b); math.IsNaN(f) || math.IsInf(f, 0) {
				b &^= 1 << 62 // clear a high exponent bit: finite now
			}
			return b
		}
	})
}

func init() {
	register("c01.tree", evalC01Tree)
	register("c01.ctor", evalC01Ctor)
}

func TestC01(t *testing.T) {
	h := newHarness(t, "C01", "value trees: bounded-exhaustive over alphabet {a,CR,LF,$,*,0} (payload<=2, arity<=2, depth<=2) plus random trees "+
		"(all 256 byte values in bulks up to 64KiB, arity up to 140, depth up to 48) plus constructor arguments (all int, all finite float64, arbitrary strings); "+
		"each tree goes through four relations against an independent codec. Non-trivial: a bulk with CR/LF/NUL/type byte, a null/empty bulk inside an array, nesting>=2, or a payload>=4KiB; "+
		"for constructors: every case with an argument. Distinct = distinct canonical encoding / distinct (ctor,argument).")
	defer h.Finish()
	h.Probes()

	// (a) bounded-exhaustive enumeration (shard 0 only: it is the same space for every shard)
	if h.Shard == 0 {
		n := 0
		stop := false
		resp.Enumerate([]byte{'a', '\r', '\n', '$', '*', '0'}, 2, 2, 2, func(v resp.Value) {
			if stop {
				return
			}
			n++
			c := c01Tree{V: v}
			h.Col.Case(c01Nontrivial(v), v.Bytes(), "enumerated")
			if n%4001 == 0 {
				h.Col.Sample(map[string]any{"kind": "enumerated-tree", "value": v.String()})
			}
			if !h.Report("c01.tree", c, evalC01Tree(c)) {
				stop = true
			}
		})
		h.Col.Exhaustive("trees over {a,CR,LF,$,*,0} payload<=2 arity<=2 depth<=2", !stop)
		h.Col.Note("enumerated_trees", n)
	}

	// (b) random trees
	h.Rapid("trees", h.N(20000, 150000), func(rt *rapid.T) {
		var v resp.Value
		cls := "random-tree"
		if rapid.IntRange(0, 39).Draw(rt, "deep") == 0 {
			v = resp.GenDeep(5, 48).Draw(rt, "deepv")
			cls = "deep-chain"
		} else {
			v = resp.GenValue(resp.DefaultGen).Draw(rt, "v")
		}
		c := c01Tree{V: v}
		enc := v.Bytes()
		classes := []string{cls}
		if len(enc) >= 4096 {
			classes = append(classes, "encoding>=4KiB")
		}
		if v.Depth() >= 2 {
			classes = append(classes, "depth>=2")
		}
		h.Col.Case(c01Nontrivial(v), enc, classes...)
		if h.Col.WantSample() {
			h.Col.Sample(map[string]any{"kind": cls, "value": v.String()})
		}
		h.Fail(rt, "c01.tree", c, evalC01Tree(c))
	})

	// (c) constructors
	h.Rapid("ctors", h.N(20000, 150000), func(rt *rapid.T) {
		c := c01Ctor{Ctor: rapid.SampledFrom([]string{"ok", "string", "error", "integer", "integer", "float", "float", "bulk", "bulk", "nil", "strings"}).Draw(rt, "ctor")}
		switch c.Ctor {
		case "string", "error":
			c.S = resp.GenLinePayload().Draw(rt, "text")
		case "integer":
			c.I = resp.GenInt64().Draw(rt, "i")
		case "float":
			c.F = genFiniteFloatBits().Draw(rt, "f")
		case "bulk":
			c.S = resp.GenBulkPayload(65536).Draw(rt, "s")
		case "strings":
			n := rapid.IntRange(0, 6).Draw(rt, "n")
			for i := 0; i < n; i++ {
				c.Strs = append(c.Strs, resp.GenBulkPayload(64).Draw(rt, "se"))
			}
		}
		canon := fmt.Sprintf("%s|%d|%x|%x|%x", c.Ctor, c.I, c.F, []byte(c.S), c.Strs)
		h.Col.Case(c.Ctor != "ok" && c.Ctor != "nil", []byte(canon), "ctor:"+c.Ctor)
		if h.Col.WantSample() {
			h.Col.Sample(map[string]any{"kind": "constructor", "case": c})
		}
		h.Fail(rt, "c01.ctor", c, evalC01Ctor(c))
	})
}
