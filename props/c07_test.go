package props

import (
	"bufio"
	"bytes"
	"fmt"
	"io"
	"math"
	"net"
	"os"
	"os/exec"
	"strconv"
	"strings"
	"sync"
	"sync/atomic"
	"testing"
	"time"

	exserver "github.com/cybergarage/go-redis/examples/go-redisd/server"
	"github.com/cybergarage/go-redis/redis"
	"pgregory.net/rapid"

	"verif/internal/cmdspec"
	"verif/internal/connsim"
	"verif/internal/doubles"
	"verif/internal/resp"
)

// ---- C07: no client can crash the server or disturb other clients ----

type c07Item struct {
	Raw *resp.Bin   `json:"raw,omitempty"` // raw bytes (malformed frames)
	Req []*resp.Bin `json:"req,omitempty"` // a command request
}

func (it c07Item) bytes() []byte {
	if it.Raw != nil {
		return *it.Raw
	}
	return reqValue(it.Req).Bytes()
}

func (it c07Item) String() string {
	if it.Raw != nil {
		return fmt.Sprintf("raw %q", clip(*it.Raw))
	}
	return reqPtrString(it.Req)
}

type c07Case struct {
	Handler  string      `json:"handler"` // example | recorder
	Offender []c07Item   `json:"offender"`
	Results  []c04Result `json:"results,omitempty"` // recorder: scripted results in call order ("handler-contract" class)
	CloseAt  int         `json:"close_at"`          // the offender closes its side after this many items (-1: stays)
	// WriteFault: "" | "block" (the offender stops reading: the server's reply write blocks while the witness works,
	// then the offender resets) | "slow" (as block, but the offender then reads on) | "fail" (the offender is gone: reply writes fail)
	WriteFault string `json:"write_fault,omitempty"`
}

func (c c07Case) describe() string {
	var parts []string
	for _, it := range c.Offender {
		parts = append(parts, it.String())
	}
	return fmt.Sprintf("handler %s; offender: %s; close_at %d write_fault %q", c.Handler, strings.Join(parts, " | "), c.CloseAt, c.WriteFault)
}

var c07Setup = [][]string{{"SET", "str", "abc"}, {"SET", "empty", ""}, {"SET", "num", "9223372036854775807"}, {"SET", "neg", "-9223372036854775808"}, {"RPUSH", "list", "a", "b", "c"},
	{"SADD", "set", "a", "b"}, {"ZADD", "zset", "1", "a", "2", "b", "3", "c"}, {"HSET", "hash", "f", "v"}}

func evalC07(c c07Case) *Failure {
	var srv *redis.Server
	var rec *doubles.Recorder
	if c.Handler == "example" {
		srv = exserver.NewServer().Server
	} else {
		srv, rec = newRecServer()
		next := 0
		rec.ResultFn = func(cl *doubles.Call) doubles.Result {
			if cl.ConnID == 0 && next < len(c.Results) {
				r := c.Results[next]
				next++
				res := doubles.Result{Nil: r.Nil, Val: r.Val, Odd: r.Odd}
				if r.Err != nil {
					res.Err = string(*r.Err) + "."
				}
				return res
			}
			return doubles.DefaultResult(cl)
		}
	}
	what := c.describe()
	m, err := connsim.NewMulti(srv, 2, serveTimeout())
	if err != nil {
		return failf("harness|multi", "opening connections: %v", err)
	}
	defer m.CloseAll()
	checkPanic := func(when string) *Failure {
		for i := range m.Conns {
			if o := m.Outcome(i); o != nil && o.Panic != nil {
				who := "offender"
				if i == 1 {
					who = "witness"
				}
				return failf("c07|panic|"+panicKey(*o), "%s: %s: the %s connection's loop panicked (a process abort in production): %v", what, when, who, o.Panic)
			}
		}
		return nil
	}
	witness := func(i int, when string) *Failure {
		tok := fmt.Sprintf("tok-%d", i)
		steps := [][]string{{"ECHO", tok}}
		want := []resp.Value{resp.B(tok)}
		if c.Handler == "example" {
			steps = [][]string{{"SET", "w:" + strconv.Itoa(i), tok}, {"GET", "w:" + strconv.Itoa(i)}, {"ECHO", tok}}
			want = []resp.Value{resp.S("OK"), resp.B(tok), resp.B(tok)}
		}
		for j, s := range steps {
			frames, alive, err := m.Step(1, resp.Cmd(s...).Bytes())
			if err != nil {
				if f := checkPanic(when); f != nil {
					return f
				}
				return stallFailure("c07|witness", what+": "+when)
			}
			if f := checkPanic(when); f != nil {
				return f
			}
			if !alive || len(frames) != 1 || !sameText(frames[0], want[j]) {
				return failf("c07|witness-disturbed", "%s: %s: the witness sent %v and received %v (alive %v), want %s", what, when, s, frames, alive, want[j])
			}
		}
		return nil
	}
	if c.Handler == "example" {
		for _, s := range c07Setup {
			if _, _, err := m.Step(1, resp.Cmd(s...).Bytes()); err != nil {
				return failf("harness|setup", "setup: %v", err)
			}
		}
	}
	offenderAlive := true
	if c.WriteFault == "fail" {
		m.Conns[0].WriteFailAfter = 0
	}
	for i, it := range c.Offender {
		when := fmt.Sprintf("after offender item %d (%s)", i, it)
		if offenderAlive && (c.WriteFault == "block" || c.WriteFault == "slow") && it.Req != nil {
			// the offender has stopped reading: the server blocks in the reply write; others must still be served
			when = fmt.Sprintf("while the reply to offender item %d (%s) cannot be written", i, it)
			m.Conns[0].BlockWrites = true
			m.Conns[0].Feed(it.bytes())
			if m.Conns[0].WaitWriteBlocked(serveTimeout()) {
				m.Timeout = 10 * time.Second
				f := witness(i, when)
				m.Timeout = serveTimeout()
				if f != nil {
					if strings.HasSuffix(f.Key, "|stall") || strings.HasPrefix(f.Key, "harness|stall") {
						return failf("c07|witness-blocked-by-stalled-writer", "%s: %s: the witness got no reply within 10s - a client that does not read its replies stalls the others", what, when)
					}
					return f
				}
			} else if !m.Conns[0].Closed() {
				// no reply was being written (incomplete request after a raw fragment): carry on normally
				m.Conns[0].UnblockWrites()
				if f := witness(i, when); f != nil {
					return f
				}
				continue
			}
			if c.WriteFault == "slow" {
				// the offender reads again: it must receive exactly the bytes that were serialized for it
				m.Conns[0].UnblockWrites()
				if _, alive, err := m.Step(0, nil); err != nil {
					if f := checkPanic(when); f != nil {
						return f
					}
					return stallFailure("c07|offender", what+": "+when)
				} else {
					offenderAlive = alive
				}
				if before, after, ok := m.Conns[0].Mutated(); ok {
					return failf("c07|reply-bytes-changed-in-flight", "%s: %s: the slow reader's reply was %q when the write began and %q when it was delivered - other clients' traffic reached its reply", what, when, clip(before), clip(after))
				}
				if f := checkPanic(when); f != nil {
					return f
				}
				continue
			}
			// the offender resets: the blocked write fails
			m.Conns[0].Close()
			m.Conns[0].UnblockWrites()
			offenderAlive = false
			if f := checkPanic(when); f != nil {
				return f
			}
			if f := witness(i, when+" and the offender has reset"); f != nil {
				return f
			}
			continue
		}
		if offenderAlive {
			if i == c.CloseAt {
				m.Conns[0].CloseRead(false)
				offenderAlive = false
			} else {
				_, alive, err := m.Step(0, it.bytes())
				if err != nil {
					if f := checkPanic(when); f != nil {
						return f
					}
					return stallFailure("c07|offender", what+": "+when)
				}
				offenderAlive = alive
			}
		}
		if f := checkPanic(when); f != nil {
			return f
		}
		if f := witness(i, when); f != nil {
			return f
		}
	}
	if _, _, err := m.Conns[0].Frames(); err != nil {
		if _, bad := err.(*resp.InvalidError); bad {
			return failf("c07|offender-frames", "%s: the offender received malformed bytes: %q", what, clip(m.Conns[0].Out()))
		}
	}
	return nil
}

// c07Concurrent: clients on goroutines of their own (no lock step): one issues commands that the framework composes from
// other commands, one writes, a witness must keep getting exact replies; nobody may stall.
type c07Concurrent struct {
	Readers [][]string `json:"readers"` // the composed / reading commands, issued round-robin
	Writers [][]string `json:"writers"`
	Rounds  int        `json:"rounds"`
	Clients int        `json:"clients"` // reader and writer connections (each kind)
}

func evalC07Concurrent(c c07Concurrent) *Failure {
	srv := exserver.NewServer().Server
	n := 2*c.Clients + 1
	m, err := connsim.NewMulti(srv, n, serveTimeout())
	if err != nil {
		return failf("harness|multi", "opening connections: %v", err)
	}
	what := fmt.Sprintf("%d reader and %d writer connections on goroutines of their own, %d rounds; readers %v, writers %v", c.Clients, c.Clients, c.Rounds, c.Readers, c.Writers)
	for _, s := range c07Setup {
		if _, _, err := m.Step(n-1, resp.Cmd(s...).Bytes()); err != nil {
			return failf("harness|setup", "setup: %v", err)
		}
	}
	type res struct {
		who string
		err error
	}
	done := make(chan res, n)
	run := func(i int, who string, cmds [][]string) {
		for r := 0; r < c.Rounds; r++ {
			cmd := cmds[(r+i)%len(cmds)]
			frames, alive, err := m.Step(i, resp.Cmd(cmd...).Bytes())
			if err != nil {
				done <- res{who, fmt.Errorf("%v got no reply: %v", cmd, err)}
				return
			}
			if o := m.Outcome(i); o != nil && o.Panic != nil {
				done <- res{who, fmt.Errorf("panic: %v", o.Panic)}
				return
			}
			if !alive || len(frames) != 1 {
				done <- res{who, fmt.Errorf("%v got %d replies (alive %v)", cmd, len(frames), alive)}
				return
			}
			if who == "witness" && !sameText(frames[0], resp.B(cmd[1])) {
				done <- res{who, fmt.Errorf("%v answered %s", cmd, frames[0])}
				return
			}
		}
		done <- res{who, nil}
	}
	for i := 0; i < c.Clients; i++ {
		go run(i, "reader", c.Readers)
		go run(c.Clients+i, "writer", c.Writers)
	}
	go run(n-1, "witness", [][]string{{"ECHO", "tok-a"}, {"ECHO", "tok-b"}})
	var first *res
	for i := 0; i < n; i++ {
		r := <-done
		if r.err != nil && first == nil {
			rr := r
			first = &rr
		}
	}
	if first != nil {
		if strings.Contains(first.err.Error(), "got no reply") {
			return failf("c07|concurrent|stall", "%s: the %s: %v", what, first.who, first.err)
		}
		return failf("c07|concurrent|"+first.who, "%s: the %s: %v", what, first.who, first.err)
	}
	m.CloseAll()
	return nil
}

// c07Churn: very many connections that end badly, one after the other, on ONE server; afterwards a fresh client is served.
type c07Churn struct {
	N     int      `json:"n"`
	Modes []string `json:"modes"` // malformed | mid-request | reset-after-request, cycled
}

func evalC07Churn(c c07Churn) *Failure {
	srv := exserver.NewServer().Server
	what := fmt.Sprintf("%d connections ending with %v, one after the other", c.N, c.Modes)
	for i := 0; i < c.N; i++ {
		var data []byte
		switch c.Modes[i%len(c.Modes)] {
		case "malformed":
			data = []byte("*1\r\n$-x\r\n")
		case "mid-request":
			data = []byte("*2\r\n$3\r\nGET\r\n$5\r\nab")
		default:
			data = append(resp.Cmd("PING").Bytes(), []byte("*1\r\n$4\r\nPI")...)
		}
		conn := connsim.NewPreloaded(i, [][]byte{data})
		conn.FullClose = true
		o := connsim.Serve(srv, conn, serveTimeout())
		if o.TimedOut {
			return stallFailure("c07|churn", fmt.Sprintf("%s: connection %d", what, i))
		}
		if o.Panic != nil {
			return failf("c07|panic|"+panicKey(o), "%s: connection %d: panic: %v", what, i, o.Panic)
		}
	}
	conn := connsim.NewPreloaded(c.N, [][]byte{resp.Cmd("ECHO", "after-the-churn").Bytes()})
	o := connsim.Serve(srv, conn, serveTimeout())
	if o.TimedOut {
		return stallFailure("c07|churn", what+": the fresh client")
	}
	frames, _, _ := conn.Frames()
	if len(frames) != 1 || !sameText(frames[0], resp.B("after-the-churn")) {
		return failf("c07|witness-disturbed", "%s: a fresh client then sent ECHO and received %v", what, frames)
	}
	if n := len(srv.Conns()); n != 0 {
		return failf("c07|churn|registry", "%s: %d connections are still registered", what, n)
	}
	return nil
}

func init() {
	register("c07.case", evalC07)
	register("c07.concurrent", evalC07Concurrent)
	register("c07.churn", evalC07Churn)
}

var c07Ints = []int{0, 1, -1, 2, -2, 3, 4, -3, -4, 5, math.MaxInt32, math.MaxInt32 + 1, math.MinInt32, math.MaxInt64, math.MaxInt64 - 1, math.MinInt64, math.MinInt64 + 1, 1000000, -1000000}
var c07Floats = []string{"", "(", "((1", "0", "1", "-1", "2", "3", "(1", "(3", "-inf", "+inf", "inf", "1e308", "-1e308", "1e-320", "(-inf", "(+inf", "nan", "NaN", "4"}
var c07Keys = []string{"str", "empty", "num", "neg", "list", "set", "zset", "hash", "missing", ""}

// c07Boundary draws a well-formed command whose numeric arguments sit on boundaries.
func c07Boundary(rt *rapid.T) []string {
	N := func() string { return strconv.Itoa(rapid.SampledFrom(c07Ints).Draw(rt, "N")) }
	F := func() string { return rapid.SampledFrom(c07Floats).Draw(rt, "F") }
	K := func() string { return rapid.SampledFrom(c07Keys).Draw(rt, "K") }
	// KT: mostly the pre-populated key of the type the command works on (so that boundary arguments meet real data)
	KT := func(typed string) string {
		if rapid.IntRange(0, 9).Draw(rt, "typedkey") < 7 {
			return typed
		}
		return K()
	}
	// FB: score bounds biased to ranges that select something
	FB := func(lo bool) string {
		if rapid.IntRange(0, 9).Draw(rt, "wide") < 5 {
			if lo {
				return rapid.SampledFrom([]string{"-inf", "0", "(0", "1"}).Draw(rt, "Flo")
			}
			return rapid.SampledFrom([]string{"+inf", "4", "(4", "3"}).Draw(rt, "Fhi")
		}
		return rapid.SampledFrom(c07Floats).Draw(rt, "F")
	}
	S := func() string { return rapid.SampledFrom([]string{"", "a", "x\r\ny", "-1", "0"}).Draw(rt, "S") }
	lim := func(c []string) []string {
		if rapid.Bool().Draw(rt, "lim") {
			if rapid.Bool().Draw(rt, "limcls") {
				c = append(c, "LIMIT", strconv.Itoa(rapid.SampledFrom([]int{0, 1, 2, 3, 4}).Draw(rt, "smalloff")), N())
			} else {
				c = append(c, "LIMIT", N(), N())
			}
		}
		if rapid.Bool().Draw(rt, "ws") {
			c = append(c, "WITHSCORES")
		}
		return c
	}
	switch rapid.IntRange(0, 27).Draw(rt, "tpl") {
	case 0:
		return []string{"GETRANGE", KT("str"), N(), N()}
	case 1:
		return []string{"SUBSTR", KT("str"), N(), N()}
	case 2:
		return []string{"LRANGE", KT("list"), N(), N()}
	case 3:
		return []string{"LINDEX", KT("list"), N()}
	case 4:
		return []string{rapid.SampledFrom([]string{"LPOP", "RPOP"}).Draw(rt, "pop"), KT("list"), N()}
	case 5:
		c := []string{"ZRANGE", KT("zset"), N(), N()}
		if rapid.Bool().Draw(rt, "rev") {
			c = append(c, "REV")
		}
		return lim(c)
	case 6:
		return lim([]string{"ZRANGE", KT("zset"), FB(true), FB(false), "BYSCORE"})
	case 7:
		return lim([]string{"ZRANGEBYSCORE", KT("zset"), FB(true), FB(false)})
	case 8:
		return lim([]string{"ZREVRANGE", KT("zset"), N(), N()})
	case 9:
		return lim([]string{"ZREVRANGEBYSCORE", KT("zset"), FB(false), FB(true)})
	case 10:
		return []string{rapid.SampledFrom([]string{"INCRBY", "DECRBY"}).Draw(rt, "incby"), KT("num"), N()}
	case 11:
		return []string{rapid.SampledFrom([]string{"INCR", "DECR"}).Draw(rt, "inc"), KT("num")}
	case 12:
		return []string{rapid.SampledFrom([]string{"EXPIRE", "EXPIREAT"}).Draw(rt, "exp"), K(), N()}
	case 13:
		return []string{"SETEX", K(), N(), S()}
	case 14:
		return []string{"SET", K(), S(), rapid.SampledFrom([]string{"EX", "PX", "EXAT", "PXAT"}).Draw(rt, "opt"), N()}
	case 15:
		c := []string{"SCAN", N()}
		if rapid.Bool().Draw(rt, "cnt") {
			c = append(c, "COUNT", N())
		}
		if rapid.Bool().Draw(rt, "match") {
			c = append(c, "MATCH", rapid.SampledFrom([]string{"*", "", "(", "[", "a**b", "?"}).Draw(rt, "pat"))
		}
		return c
	case 16:
		return []string{"SELECT", N()}
	case 17:
		return []string{"ZADD", KT("zset"), F(), S()}
	case 18:
		return []string{"ZINCRBY", KT("zset"), F(), S()}
	case 19:
		return []string{"APPEND", K(), S()}
	case 20:
		return []string{"TTL", K()}
	case 21:
		return []string{"KEYS", rapid.SampledFrom([]string{"*", "", "(", "[a", "\\", "a**b", "?", "*\n*"}).Draw(rt, "pat")}
	case 22:
		return []string{"RENAME", K(), K()}
	case 23:
		return []string{"HSTRLEN", K(), S()}
	case 24:
		return []string{"STRLEN", K()}
	case 25:
		return []string{"HKEYS", K()}
	case 26:
		return []string{"SCARD", K()}
	default:
		return []string{"MGET", K(), K()}
	}
}

func strsToItem(c []string) c07Item {
	it := c07Item{}
	for _, a := range c {
		it.Req = append(it.Req, bp(a))
	}
	return it
}

var c07Structural = []string{"*0\r\n", "*-1\r\n", "*1\r\n$-1\r\n", "*1\r\n*0\r\n", "*1\r\n*1\r\n$4\r\nPING\r\n", "*2\r\n*1\r\n$3\r\nGET\r\n$1\r\nk\r\n", "*1\r\n:1\r\n", "*1\r\n-x\r\n",
	"+inline\r\n", ":5\r\n", "$-1\r\n", "$3\r\nabc\r\n", "-ERR\r\n", "\r\n", "PING\r\n", "*1\r\n+PING\r\n", "*3\r\n$3\r\nSET\r\n$-1\r\n$1\r\nv\r\n"}

// genC07Case draws an offender stream.
func genC07Case(rt *rapid.T, avoid func(string) bool) (c07Case, map[string]bool) {
	labels := map[string]bool{}
	c := c07Case{Handler: "example", CloseAt: -1}
	if rapid.IntRange(0, 3).Draw(rt, "rec") == 0 {
		c.Handler = "recorder"
	}
	n := rapid.IntRange(1, 6).Draw(rt, "n")
	for i := 0; i < n; i++ {
		switch rapid.IntRange(0, 9).Draw(rt, "kind") {
		case 0, 1, 2, 3, 4:
			c.Offender = append(c.Offender, strsToItem(c07Boundary(rt)))
			labels["boundary-argument"] = true
		case 5:
			name := rapid.SampledFrom(cmdspec.Names).Draw(rt, "cmd")
			if name == "QUIT" {
				name = "PING"
			}
			in := (&cmdspec.G{T: rt, Avoid: avoid}).Gen(name)
			c.Offender = append(c.Offender, c07Item{Req: binPtrs(in.Args)})
			labels["grammar-instance"] = true
		case 6:
			raw := resp.Bin(rapid.SampledFrom(c07Structural).Draw(rt, "structural"))
			c.Offender = append(c.Offender, c07Item{Raw: &raw})
			labels["structural-frame"] = true
		case 7:
			depth := rapid.SampledFrom([]int{2, 10, 1000, 1023, 1024, 1025, 5000}).Draw(rt, "depth")
			raw := resp.Bin(strings.Repeat("*1\r\n", depth) + "$4\r\nPING\r\n")
			c.Offender = append(c.Offender, c07Item{Raw: &raw})
			labels["nested-command"] = true
		default:
			base := resp.Cmd(c07Boundary(rt)...).Bytes()
			other := resp.Cmd("GET", "k").Bytes()
			raw := resp.Bin(mutate(rt, base, other))
			if hazardous(raw) {
				raw = resp.Bin("*1\r\n")
			}
			c.Offender = append(c.Offender, c07Item{Raw: &raw})
			labels["malformed-frame"] = true
		}
	}
	if rapid.IntRange(0, 3).Draw(rt, "close") == 0 {
		c.CloseAt = rapid.IntRange(0, n-1).Draw(rt, "closeat")
		labels["disconnect"] = true
	}
	switch rapid.IntRange(0, 7).Draw(rt, "wfault") {
	case 0:
		c.WriteFault = "block"
		labels["peer-stops-reading"] = true
	case 1:
		c.WriteFault = "fail"
		labels["reply-write-fails"] = true
	case 2:
		c.WriteFault = "slow"
		labels["peer-reads-slowly"] = true
	}
	if c.Handler == "recorder" {
		k := rapid.IntRange(0, 8).Draw(rt, "nres")
		for i := 0; i < k; i++ {
			var r c04Result
			switch rapid.IntRange(0, 5).Draw(rt, "rescls") {
			case 5:
				r.Odd = rapid.SampledFrom([]string{"nil-array", "no-type", "unknown-type", "nil-in-array", "nil-in-big-array", "nil-in-huge-array", "walked-array"}).Draw(rt, "odd")
			case 0:
				r.Nil = true
			case 1:
				e := resp.Bin("ERR scripted")
				r.Err = &e
			default:
				v := genReplyTree().Draw(rt, "resval")
				r.Val = &v
			}
			c.Results = append(c.Results, r)
		}
		if k > 0 {
			labels["handler-contract"] = true
		}
	}
	return c, labels
}

// ---- child-process tier: the example server as a separate process on loopback TCP

type childSrv struct {
	cmd     *exec.Cmd
	stdin   io.WriteCloser
	port    int
	tlsPort int
	stderr  *tailBuf
	exited  chan struct{}
	werr    error
}

var portCounter int64

// freePort picks a port below the ephemeral range (so that outgoing connections never take it), spread by
// process id so that concurrently running check processes do not pick the same candidates.
func freePort() int {
	for i := 0; i < 2000; i++ {
		n := atomic.AddInt64(&portCounter, 1)
		p := 20000 + int((int64(os.Getpid())*131+n*7)%12000)
		l, err := net.Listen("tcp", fmt.Sprintf("127.0.0.1:%d", p))
		if err != nil {
			continue
		}
		l.Close()
		l2, err := net.Listen("tcp", fmt.Sprintf(":%d", p))
		if err != nil {
			continue
		}
		l2.Close()
		return p
	}
	panic("no free port")
}

// startOnFreePorts configures fresh ports and starts the server, retrying when another process grabbed a port in between.
func startOnFreePorts(srv *redis.Server, withTLS bool) (port, tlsPort int, err error) {
	for attempt := 0; attempt < 8; attempt++ {
		port = freePort()
		srv.SetPort(port)
		if withTLS {
			tlsPort = freePort()
			srv.SetTLSPort(tlsPort)
		}
		err = srv.Start()
		if err == nil {
			return
		}
		srv.Stop()
		if !strings.Contains(err.Error(), "address already in use") {
			return
		}
	}
	return
}

func startChildServer(asLimit uint64) (*childSrv, error) {
	return startChildServerWith(asLimit, "", "")
}

// startChildServerWith: pkiDir != "" adds a TLS listener using server.crt/server.key/ca.crt of that directory
// (and a common-name rule when rule != "").
func startChildServerWith(asLimit uint64, pkiDir, rule string, extraEnv ...string) (*childSrv, error) {
	for attempt := 0; attempt < 5; attempt++ {
		cs := &childSrv{port: freePort(), stderr: &tailBuf{}, exited: make(chan struct{})}
		cs.cmd = exec.Command(selfBinary())
		cs.cmd.Env = append(os.Environ(), "VERIF_CHILD=server", fmt.Sprintf("VERIF_CHILD_PORT=%d", cs.port), fmt.Sprintf("VERIF_CHILD_AS=%d", asLimit), "GOTRACEBACK=single")
		if pkiDir != "" {
			cs.tlsPort = freePort()
			cs.cmd.Env = append(cs.cmd.Env, "VERIF_CHILD_PKI="+pkiDir, fmt.Sprintf("VERIF_CHILD_TLSPORT=%d", cs.tlsPort), "VERIF_CHILD_RULE="+rule)
			cs.cmd.Env = append(cs.cmd.Env, extraEnv...)
		}
		in, err := cs.cmd.StdinPipe()
		if err != nil {
			return nil, err
		}
		cs.stdin = in
		out, err := cs.cmd.StdoutPipe()
		if err != nil {
			return nil, err
		}
		cs.cmd.Stderr = cs.stderr
		if err := cs.cmd.Start(); err != nil {
			return nil, err
		}
		rd := bufio.NewReader(out)
		line, _ := rd.ReadString('\n')
		go io.Copy(io.Discard, rd)
		go func() { cs.werr = cs.cmd.Wait(); close(cs.exited) }()
		if strings.HasPrefix(line, "READY") {
			return cs, nil
		}
		cs.stop()
	}
	return nil, fmt.Errorf("child server did not start")
}

func (cs *childSrv) alive() bool {
	select {
	case <-cs.exited:
		return false
	default:
		return true
	}
}

func (cs *childSrv) stop() {
	cs.stdin.Close()
	select {
	case <-cs.exited:
	case <-time.After(3 * time.Second):
		cs.cmd.Process.Kill()
		<-cs.exited
	}
}

func (cs *childSrv) dial() (net.Conn, error) {
	return net.DialTimeout("tcp", fmt.Sprintf("127.0.0.1:%d", cs.port), 3*time.Second)
}

// roundTrip sends one request and reads one reply frame.
func roundTrip(conn net.Conn, req []byte, timeout time.Duration) (resp.Value, error) {
	conn.SetDeadline(time.Now().Add(timeout))
	if _, err := conn.Write(req); err != nil {
		return resp.Value{}, err
	}
	var buf []byte
	tmp := make([]byte, 4096)
	for {
		v, _, err := resp.Decode(buf)
		if err == nil {
			return v, nil
		}
		if err != resp.ErrIncomplete {
			return resp.Value{}, err
		}
		n, rerr := conn.Read(tmp)
		buf = append(buf, tmp[:n]...)
		if rerr != nil && n == 0 {
			return resp.Value{}, rerr
		}
	}
}

type c07Child struct {
	Name   string   `json:"name"`
	Raw    resp.Bin `json:"raw,omitempty"`
	Repeat string   `json:"repeat,omitempty"` // payload = Repeat x N + Tail
	N      int      `json:"n,omitempty"`
	Tail   string   `json:"tail,omitempty"`
	Head   string   `json:"head,omitempty"`  // sent before Repeat x N
	Burst  bool     `json:"burst,omitempty"` // concurrent same-hash HSET/HDEL/HGETALL burst
}

func (c c07Child) payload() []byte {
	if c.N > 0 {
		return append(append([]byte(c.Head), bytes.Repeat([]byte(c.Repeat), c.N)...), c.Tail...)
	}
	return c.Raw
}

// evalC07Child runs one dangerous request against a fresh example-server process.
func evalC07Child(c c07Child) *Failure {
	cs, err := startChildServer(8 << 30)
	if err != nil {
		return failf("harness|child", "%v", err)
	}
	defer cs.stop()
	return c07ChildOn(cs, c)
}

func c07ChildOn(cs *childSrv, c c07Child) *Failure {
	witness, err := cs.dial()
	if err != nil {
		return failf("harness|dial", "witness cannot connect before the offender did anything: %v", err)
	}
	defer witness.Close()
	if v, err := roundTrip(witness, resp.Cmd("SET", "w", "before").Bytes(), 5*time.Second); err != nil || !v.Equal(resp.S("OK")) {
		return failf("harness|witness", "witness SET before the offender: %v %v", v, err)
	}
	what := "child-process request " + c.Name
	if c.Burst {
		var wg sync.WaitGroup
		for i := 0; i < 8; i++ {
			wg.Add(1)
			go func(i int) {
				defer wg.Done()
				conn, err := cs.dial()
				if err != nil {
					return
				}
				defer conn.Close()
				for j := 0; j < 300; j++ {
					var req []byte
					switch (i + j) % 3 {
					case 0:
						req = resp.Cmd("HSET", "burst", fmt.Sprintf("f%d", j%7), "v").Bytes()
					case 1:
						req = resp.Cmd("HDEL", "burst", fmt.Sprintf("f%d", j%7)).Bytes()
					default:
						req = resp.Cmd("HGETALL", "burst").Bytes()
					}
					if _, err := roundTrip(conn, req, 5*time.Second); err != nil {
						return
					}
				}
			}(i)
		}
		wg.Wait()
	} else {
		off, err := cs.dial()
		if err != nil {
			return failf("harness|dial", "offender cannot connect: %v", err)
		}
		payload := c.payload()
		off.SetDeadline(time.Now().Add(20 * time.Second))
		go io.Copy(io.Discard, off)
		off.Write(payload)
		time.Sleep(50 * time.Millisecond)
		// the witness must be served while the offender is still connected ...
		if v, err := roundTrip(witness, resp.Cmd("GET", "w").Bytes(), 10*time.Second); err != nil || !sameText(v, resp.B("before")) {
			if !cs.alive() {
				return failf("c07|process-died", "%s: the server process died (%v); stderr: %s", what, cs.werr, firstLines(cs.stderr.String(), 3))
			}
			return failf("c07|witness-disturbed", "%s: witness GET answered %v, %v while the offender was connected", what, v, err)
		}
		off.Close()
	}
	// ... and afterwards: process alive, accepts a new connection, exact replies
	time.Sleep(20 * time.Millisecond)
	if !cs.alive() {
		return failf("c07|process-died", "%s: the server process died (%v); stderr: %s", what, cs.werr, firstLines(cs.stderr.String(), 3))
	}
	if v, err := roundTrip(witness, resp.Cmd("GET", "w").Bytes(), 10*time.Second); err != nil || !sameText(v, resp.B("before")) {
		if !cs.alive() {
			return failf("c07|process-died", "%s: the server process died (%v); stderr: %s", what, cs.werr, firstLines(cs.stderr.String(), 3))
		}
		return failf("c07|witness-disturbed", "%s: witness GET answered %v, %v", what, v, err)
	}
	fresh, err := cs.dial()
	if err != nil {
		return failf("c07|not-accepting", "%s: the server no longer accepts connections: %v", what, err)
	}
	defer fresh.Close()
	if v, err := roundTrip(fresh, resp.Cmd("ECHO", "hi").Bytes(), 10*time.Second); err != nil || !sameText(v, resp.B("hi")) {
		return failf("c07|not-serving", "%s: a new connection got %v, %v for ECHO", what, v, err)
	}
	return nil
}

// sameText compares a reply with the expected text; whether a value comes back as a status
// or as a bulk string is not what "disturbing the witness" is about (that is C04/C18).
func sameText(got, want resp.Value) bool {
	a, ok1 := got.Str()
	b, ok2 := want.Str()
	return ok1 && ok2 && a == b
}

func firstLines(s string, n int) string {
	lines := strings.Split(s, "\n")
	if len(lines) > n {
		lines = lines[:n]
	}
	return strings.Join(lines, " / ")
}

func c07ChildList() []c07Child {
	var out []c07Child
	add := func(name string, raw string) { out = append(out, c07Child{Name: name, Raw: resp.Bin(raw)}) }
	for _, n := range []string{"9223372036854775807", "2147483648", "10000000000000", "4294967296", "-9223372036854775808", "536870913"} {
		add("bulk-length-"+n, "*2\r\n$3\r\nGET\r\n$"+n+"\r\n")
		add("array-count-"+n, "*"+n+"\r\n")
	}
	add("empty-array", "*0\r\n")
	add("null-name", "*1\r\n$-1\r\n")
	for _, c := range [][]string{{"GETRANGE", "str", "0", "3"}, {"GETRANGE", "empty", "0", "0"}, {"GETRANGE", "str", "5", "1"}, {"ZRANGEBYSCORE", "zset", "0", "9", "LIMIT", "5", "2"}, {"ZRANGE", "zset", "0", "-1", "LIMIT", "5", "2"},
		{"LPOP", "list", "9223372036854775807"}, {"RPOP", "list", "9223372036854775807"}, {"LRANGE", "list", "0", "9223372036854775807"}, {"LRANGE", "list", "-9223372036854775808", "9223372036854775807"},
		{"ZRANGE", "zset", "0", "9223372036854775807"}, {"ZRANGE", "zset", "-9223372036854775808", "9223372036854775807", "REV"}, {"ZADD", "zset", "NX", "1", "m"}, {"ZADD", "zset", "CH", "INCR", "1", "m"},
		{"INCR", "num"}, {"DECRBY", "neg", "1"}, {"DECRBY", "str", "-9223372036854775808"}, {"ZREVRANGE", "zset", "-9223372036854775808", "9223372036854775807"}, {"LINDEX", "list", "-9223372036854775808"},
		{"SCAN", "9223372036854775807", "COUNT", "-1"}, {"SELECT", "9223372036854775807"}, {"EXPIRE", "str", "9223372036854775807"}, {"SETEX", "str", "9223372036854775807", "v"}, {"KEYS", "("}, {"SCAN", "0", "MATCH", "("}} {
		pre := ""
		for _, s := range c07Setup {
			pre += string(resp.Cmd(s...).Bytes())
		}
		add("cmd-"+strings.Join(c, "-"), pre+string(resp.Cmd(c...).Bytes()))
	}
	out = append(out, c07Child{Name: "nesting-8M", Repeat: "*1\r\n", N: 8000000, Tail: "$4\r\nPING\r\n"})
	out = append(out, c07Child{Name: "nesting-1M-unterminated", Repeat: "*1\r\n", N: 1000000})
	out = append(out, c07Child{Name: "concurrent-same-hash-burst", Burst: true})
	// patterns that are valid but enormous once translated (the matcher may refuse them, the process may not die)
	out = append(out, c07Child{Name: "keys-pattern-60000-wildcards", Head: "*2\r\n$4\r\nKEYS\r\n$60000\r\n", Repeat: "*", N: 60000, Tail: "\r\n"})
	out = append(out, c07Child{Name: "keys-pattern-1700000-wildcards", Head: "*2\r\n$4\r\nKEYS\r\n$1700000\r\n", Repeat: "*", N: 1700000, Tail: "\r\n"})
	if os.Getenv("VERIF_TIER") == "thorough" {
		out = append(out, c07Child{Name: "scan-match-1700000-wildcards", Head: "*4\r\n$4\r\nSCAN\r\n$1\r\n0\r\n$5\r\nMATCH\r\n$1700000\r\n", Repeat: "?", N: 1700000, Tail: "\r\n"})
	}
	return out
}

func init() { register("c07.child", evalC07Child) }

func TestC07(t *testing.T) {
	h := newHarness(t, "C07", "offender streams of 1..6 items against the bundled example store (pre-populated) and against a scripted handler returning nil/wrong-shaped/error results (class handler-contract): well-formed commands with numeric arguments on boundaries "+
		"{0,+-1,+-2,len-1,len,len+1,+-2^31,2^63-1,-2^63}, inverted and empty ranges, negative counts and LIMITs, empty strings; grammar instances of every command; empty/null/nested/non-array frames; nesting around the parser's depth limit; mutated frames; "+
		"disconnect at a random item. A WITNESS connection on the same server is interleaved item by item (SET/GET/ECHO with unique tokens). Oracle: no panic escapes any connection loop, no stall, every witness reply exact, offender output well-formed. "+
		"Child-process tier: a fixed list of ~50 dangerous requests (allocation bombs, extreme counts, 8M-deep nesting, a concurrent same-hash HSET/HDEL/HGETALL burst of 8 clients) against the example server as a separate process under RLIMIT_AS=8GiB: process alive, still accepting, witness exact. "+
		"CONCURRENT: reader connections issuing commands the framework composes from other commands, writer connections and a witness, each on a goroutine of its own - nobody may stall. CHURN: 12000 (thorough 70000) connections ending with a malformed frame, inside a request or after a request, one after the other on one server, then a fresh client must be served. "+
		"Non-trivial: the offender stream holds a boundary argument or malformed frame and the witness issued a request after it (always the case). Distinct = distinct case.")
	defer h.Finish()
	h.Probes()

	// clients on goroutines of their own: composed/reading commands against writers, a witness in between
	h.Rapid("concurrent", h.N(30, 600), func(rt *rapid.T) {
		c := c07Concurrent{Rounds: rapid.SampledFrom([]int{60, 200, 500}).Draw(rt, "rounds"), Clients: rapid.IntRange(1, 3).Draw(rt, "clients")}
		readers := [][]string{{"STRLEN", "str"}, {"SUBSTR", "str", "0", "1"}, {"HLEN", "hash"}, {"HKEYS", "hash"}, {"HVALS", "hash"}, {"HEXISTS", "hash", "f"}, {"HSTRLEN", "hash", "f"}, {"GETRANGE", "str", "0", "-1"},
			{"MGET", "str", "num"}, {"KEYS", "*"}, {"SCAN", "0"}, {"LRANGE", "list", "0", "-1"}, {"SMEMBERS", "set"}, {"ZRANGE", "zset", "0", "-1"}, {"ZREVRANGE", "zset", "0", "-1"}, {"EXISTS", "str"}, {"TYPE", "str"}}
		writers := [][]string{{"SET", "str", "abc"}, {"APPEND", "str", "x"}, {"HSET", "hash", "f", "v"}, {"INCR", "n"}, {"MSET", "a", "1", "b", "2"}, {"LPUSH", "list", "z"}, {"SADD", "set", "c"}, {"ZADD", "zset", "4", "d"}, {"DEL", "a"}, {"RENAME", "b", "c"}}
		for i, k := 0, rapid.IntRange(1, 4).Draw(rt, "nr"); i < k; i++ {
			c.Readers = append(c.Readers, rapid.SampledFrom(readers).Draw(rt, "reader"))
		}
		for i, k := 0, rapid.IntRange(1, 3).Draw(rt, "nw"); i < k; i++ {
			c.Writers = append(c.Writers, rapid.SampledFrom(writers).Draw(rt, "writer"))
		}
		h.Col.Case(true, []byte(fmt.Sprint("concurrent", c)), "concurrent-clients")
		h.Fail(rt, "c07.concurrent", c, evalC07Concurrent(c))
	})

	// state that accumulates over very many connections of one server
	if h.Shard == h.NShards-1 {
		for _, c := range []c07Churn{{N: h.N(12000, 70000), Modes: []string{"malformed", "mid-request", "reset-after-request"}}, {N: h.N(3000, 20000), Modes: []string{"malformed"}}} {
			h.Col.Case(true, []byte(fmt.Sprint("churn", c)), "connection-churn")
			h.Report("c07.churn", c, evalC07Churn(c))
		}
	}

	if h.Shard == 0 {
		list := c07ChildList()
		if !h.Thorough() {
			// quick: one shared process for the whole list is enough to see a death; on failure the case is re-run alone to attribute it
			cs, err := startChildServer(8 << 30)
			if err != nil {
				t.Fatalf("child server: %v", err)
			}
			for _, c := range list {
				h.Col.Case(true, []byte("child:"+c.Name), "child-process")
				f := c07ChildOn(cs, c)
				if f != nil && !strings.HasPrefix(f.Key, "harness|") {
					cs.stop()
					if f2 := evalC07Child(c); f2 != nil {
						f = f2
					} else {
						f.Detail += " (only in sequence after earlier requests of the fixed list)"
					}
					if !h.Report("c07.child", c, f) {
						break
					}
					if cs, err = startChildServer(8 << 30); err != nil {
						t.Fatalf("child server: %v", err)
					}
				} else if f != nil {
					t.Fatalf("child tier: %s", f.Detail)
				}
			}
			cs.stop()
		} else {
			for _, c := range list {
				h.Col.Case(true, []byte("child:"+c.Name), "child-process")
				if !h.Report("c07.child", c, evalC07Child(c)) {
					break
				}
			}
		}
		h.Col.Exhaustive("fixed list of dangerous requests against a separate server process", true)
		h.Col.Note("child_requests", len(list))
	}

	h.Rapid("offenders", h.N(12000, 300000), func(rt *rapid.T) {
		c, labels := genC07Case(rt, h.Avoid)
		var cl []string
		for l := range labels {
			cl = append(cl, l)
		}
		cl = append(cl, "handler:"+c.Handler)
		h.Col.Case(true, []byte(c.describe()), cl...)
		if h.Col.WantSample() {
			h.Col.Sample(map[string]any{"case": c.describe()})
		}
		h.Fail(rt, "c07.case", c, evalC07(c))
	})
}
