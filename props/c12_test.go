package props

import (
	"fmt"
	"math"
	"strconv"
	"strings"
	"testing"

	"pgregory.net/rapid"

	"github.com/cybergarage/go-redis/redis"

	"verif/internal/connsim"
	"verif/internal/doubles"
	"verif/internal/model"
	"verif/internal/resp"
)

// ---- C12: framework-implemented commands follow Redis semantics ----

type progCase struct {
	Cmds [][]resp.Bin `json:"cmds"`
}

func (p progCase) strs(i int) []string {
	out := make([]string, len(p.Cmds[i]))
	for j, a := range p.Cmds[i] {
		out[j] = string(a)
	}
	return out
}

// runProgram serves the program as one pipeline and compares every reply (and optionally the
// final state of the reference store) with the model.
func runProgram(prefix string, p progCase, srv *redis.Server, store *doubles.RefStore, skip func(name string) bool) *Failure {
	data, _ := encodeReqs(p.Cmds)
	conn := connsim.NewPreloaded(1, [][]byte{data})
	o := connsim.Serve(srv, conn, serveTimeout())
	var lines []string
	for i := range p.Cmds {
		lines = append(lines, reqString(p.Cmds[i]))
	}
	what := "program [" + strings.Join(lines, "; ") + "]"
	if o.TimedOut {
		return stallFailure(prefix, what)
	}
	if o.Panic != nil {
		// attribute the panic to the command being executed: the one after the last complete reply
		n := conn.FrameCount()
		cmd := "?"
		if n < len(p.Cmds) {
			cmd = strings.ToUpper(string(p.Cmds[n][0]))
		}
		return failf(prefix+"|panic|"+panicKey(o)+"|"+cmd, "%s: panic while executing command %d: %v", what, n, o.Panic)
	}
	frames, _, err := conn.Frames()
	if err != nil || len(frames) != len(p.Cmds) {
		return failf(prefix+"|frames", "%s: %d replies for %d commands (%v): %q", what, len(frames), len(p.Cmds), err, clip(conn.Out()))
	}
	m := model.New()
	for i := range p.Cmds {
		args := p.strs(i)
		want := m.Exec(0, args)
		name := strings.ToUpper(args[0])
		if skip != nil && skip(name) {
			continue
		}
		if !model.Equal(want, frames[i]) {
			return failf(prefix+"|reply|"+name, "program [%s]: reply %d to %s is %s, Redis answers %s (compare mode %s)", strings.Join(lines[:i+1], "; "), i, reqString(p.Cmds[i]), frames[i], want.Reply, want.Cmp)
		}
	}
	if store != nil {
		got, want := store.Snapshot().Dump(), m.Dump()
		if got != want {
			return failf(prefix+"|state", "%s: final store contents differ from Redis:\n--- store\n%s--- model\n%s", what, got, want)
		}
	}
	return nil
}

func evalC12(p progCase) *Failure {
	srv := redis.NewServer()
	store := doubles.NewRefStore()
	srv.SetCommandHandler(store)
	return runProgram("c12", p, srv, store, nil)
}

func init() { register("c12.prog", evalC12) }

func cmd(args ...string) []resp.Bin {
	out := make([]resp.Bin, len(args))
	for i, a := range args {
		out[i] = resp.Bin(a)
	}
	return out
}

var c12Derived = map[string]bool{"PING": true, "ECHO": true, "MSET": true, "MSETNX": true, "MGET": true, "APPEND": true, "INCR": true, "DECR": true, "INCRBY": true, "DECRBY": true,
	"STRLEN": true, "GETRANGE": true, "SUBSTR": true, "HMSET": true, "HMGET": true, "HEXISTS": true, "HKEYS": true, "HVALS": true, "HLEN": true, "HSTRLEN": true, "SCARD": true, "SISMEMBER": true,
	"ZCARD": true, "ZREVRANGE": true, "ZREVRANGEBYSCORE": true, "CONFIG": true}

func TestC12(t *testing.T) {
	h := newHarness(t, "C12", "handler = reference store with Redis-like primitives. Exhaustive index tables: GETRANGE and SUBSTR on values of length 0..6 x start,end in -9..9 plus a missing key; "+
		"ZREVRANGE on sorted sets of size 0..5 (with a tie) x start,stop in -7..7 x {plain, WITHSCORES}; ZREVRANGEBYSCORE over all pairs of 8 bounds x inclusive/exclusive x {no LIMIT, LIMIT 0..3 x -1..3}. "+
		"Random: command programs of length 1..20 over small key/field/member pools mixing setup commands with the derived commands of the property, counters near +-2^63 and on non-integers, duplicate keys, CONFIG SET/GET. "+
		"Oracle: every reply equals the executable Redis model's, and the final contents of the reference store equal the model's state. "+
		"Non-trivial: the program contains a derived command on a key the program has written. Distinct = distinct program.")
	defer h.Finish()
	h.Probes()

	evalOne := func(kind string, p progCase, classes ...string) bool {
		data, _ := encodeReqs(p.Cmds)
		h.Col.Case(true, data, classes...)
		return h.Report("c12.prog", p, evalC12(p))
	}

	if h.Shard == 0 {
		// GETRANGE / SUBSTR tables
		ok := true
		vals := []string{"", "a", "ab", "abc", "abcd", "abcde", "abcdef"}
	getrange:
		for _, name := range []string{"GETRANGE", "SUBSTR"} {
			for vi := -1; vi < len(vals); vi++ {
				for s := -9; s <= 9; s++ {
					for e := -9; e <= 9; e++ {
						p := progCase{}
						if vi >= 0 {
							p.Cmds = append(p.Cmds, cmd("SET", "k", vals[vi]))
						}
						p.Cmds = append(p.Cmds, cmd(name, "k", strconv.Itoa(s), strconv.Itoa(e)))
						if !evalOne("c12.prog", p, "table:"+name) {
							ok = false
							break getrange
						}
					}
				}
			}
		}
		h.Col.Exhaustive("GETRANGE/SUBSTR: value lengths 0..6 and missing key x start,end in -9..9", ok)

		// ZREVRANGE table (scores with one tie: 1,2,2,3,5)
		members := []string{"a", "b", "c", "d", "e"}
		scores := []string{"1", "2", "2", "3", "5"}
		ok = true
	zrev:
		for n := 0; n <= 5; n++ {
			for s := -7; s <= 7; s++ {
				for e := -7; e <= 7; e++ {
					for _, ws := range []bool{false, true} {
						p := progCase{}
						if n > 0 {
							add := []string{"ZADD", "z"}
							for i := 0; i < n; i++ {
								add = append(add, scores[i], members[i])
							}
							p.Cmds = append(p.Cmds, cmd(add...))
						}
						q := []string{"ZREVRANGE", "z", strconv.Itoa(s), strconv.Itoa(e)}
						if ws {
							q = append(q, "WITHSCORES")
						}
						p.Cmds = append(p.Cmds, cmd(q...))
						if !evalOne("c12.prog", p, "table:ZREVRANGE") {
							ok = false
							break zrev
						}
					}
				}
			}
		}
		h.Col.Exhaustive("ZREVRANGE: sizes 0..5 x start,stop in -7..7 x {plain,WITHSCORES}", ok)

		// ZREVRANGEBYSCORE table
		bounds := []string{"-inf", "1", "2", "3", "4", "5", "8", "+inf"}
		ok = true
		setup := cmd("ZADD", "z", "1", "a", "2", "b", "2", "c", "3", "d", "5", "e", "8", "f")
	zrevscore:
		for _, max := range bounds {
			for _, min := range bounds {
				for _, maxEx := range []string{"", "("} {
					for _, minEx := range []string{"", "("} {
						limits := [][]string{nil}
						for off := 0; off <= 3; off++ {
							for cnt := -1; cnt <= 3; cnt++ {
								limits = append(limits, []string{"LIMIT", strconv.Itoa(off), strconv.Itoa(cnt)})
							}
						}
						for li, lim := range limits {
							q := append([]string{"ZREVRANGEBYSCORE", "z", maxEx + max, minEx + min}, lim...)
							if li%2 == 1 {
								q = append(q, "WITHSCORES")
							}
							p := progCase{Cmds: [][]resp.Bin{setup, cmd(q...)}}
							if !evalOne("c12.prog", p, "table:ZREVRANGEBYSCORE") {
								ok = false
								break zrevscore
							}
						}
					}
				}
			}
		}
		h.Col.Exhaustive("ZREVRANGEBYSCORE: 8x8 bounds x incl/excl x {none, LIMIT 0..3 x -1..3}", ok)
	}

	strKeys := []string{"s1", "s2", "s3"}
	hashKeys := []string{"h1", "h2"}
	listKeys := []string{"l1"}
	setKeys := []string{"t1", "t2"}
	zsetKeys := []string{"z1", "z2"}
	fields := []string{"f1", "f2", "f3"}
	vals := []string{"", "a", "bc", "hello world", "a\r\nb", "\x00\xff", "10", "-3"}
	counters := []string{"0", "1", "-1", "41", strconv.FormatInt(math.MaxInt64, 10), strconv.FormatInt(math.MaxInt64-1, 10), strconv.FormatInt(math.MinInt64, 10), strconv.FormatInt(math.MinInt64+1, 10), "abc", "", "1.5", " 1", "0x10", "0X1f", "010", "0b11", "0o17", "1_000", "+5", "007"}
	deltas := []string{"1", "-1", "5", "0", strconv.FormatInt(math.MaxInt64, 10), strconv.FormatInt(math.MinInt64, 10), "1000000"}
	zscores := []string{"1", "2", "2.5", "-1", "0", "3", "1e3", "-inf", "+inf"}
	cfgNames := []string{"verif-a", "verif-b", "verif c", "Verif-Mixed", "VERIF-UP", "port", "tls-port", "timeout", "maxclients", "databases"}

	// CONFIG SET / GET on a small pool of parameter names (the server's own well-known ones included): what was set is what is read
	h.Rapid("config", h.N(2000, 60000), func(rt *rapid.T) {
		names := []string{"verif-a", "Verif-Mixed", "port", "tls-port", "timeout", "maxclients", "requirepass-x", "databases", "tls-cert-file", "dir"}
		values := []string{"", "a", "off", "0", "7", "-1", "6380", "x y", "1.5", "99999999999999999999"}
		p := progCase{}
		for i, n := 0, rapid.IntRange(2, 8).Draw(rt, "n"); i < n; i++ {
			var c []string
			if rapid.Bool().Draw(rt, "set") {
				c = []string{"CONFIG", "SET", rapid.SampledFrom(names[:4+rapid.IntRange(0, 6).Draw(rt, "pool")]).Draw(rt, "name"), rapid.SampledFrom(values).Draw(rt, "value")}
			} else {
				c = []string{"CONFIG", "GET", rapid.SampledFrom(names[:4+rapid.IntRange(0, 6).Draw(rt, "pool")]).Draw(rt, "name")}
			}
			if rapid.IntRange(0, 3).Draw(rt, "lower") == 0 {
				c[0], c[1] = "config", strings.ToLower(c[1])
			}
			p.Cmds = append(p.Cmds, cmd(c...))
		}
		data, _ := encodeReqs(p.Cmds)
		h.Col.Case(true, append([]byte("config\x00"), data...), "derived:CONFIG", "config-programs")
		h.Fail(rt, "c12.prog", p, evalC12(p))
	})

	h.Rapid("programs", h.N(10000, 600000), func(rt *rapid.T) {
		pick := func(label string, pool []string) string { return rapid.SampledFrom(pool).Draw(rt, label) }
		n := rapid.IntRange(1, 20).Draw(rt, "len")
		p := progCase{}
		written := map[string]bool{}
		nt := false
		classes := map[string]bool{}
		for i := 0; i < n; i++ {
			var c []string
			switch rapid.IntRange(0, 34).Draw(rt, "op") {
			case 34:
				// a run of requests the server does not support (what a newer client sends first), then the program goes on
				if rapid.IntRange(0, 3).Draw(rt, "burst") == 0 {
					for j, m := 0, rapid.IntRange(28, 45).Draw(rt, "burstlen"); j < m; j++ {
						p.Cmds = append(p.Cmds, cmd(rapid.SampledFrom([][]string{{"HELLO", "3"}, {"CLIENT", "SETINFO", "LIB-NAME", "x"}, {"COMMAND", "DOCS"}, {"GETT", "k"}}).Draw(rt, "unsupported")...))
					}
				}
				c = []string{pick("derived", []string{"HLEN", "STRLEN", "HKEYS", "HVALS", "HEXISTS", "HSTRLEN"})}
				if c[0] == "STRLEN" {
					c = append(c, pick("k", strKeys))
				} else {
					c = append(c, pick("k", hashKeys)) // every key is used with one data type
				}
				if c[0] == "HEXISTS" || c[0] == "HSTRLEN" {
					c = append(c, "f1")
				}
			case 0:
				c = []string{"SET", pick("k", strKeys), pick("v", append(vals, counters...))}
			case 1:
				c = []string{"GET", pick("k", strKeys)}
			case 2:
				c = []string{"MSET"}
				for j, m := 0, rapid.IntRange(1, 3).Draw(rt, "m"); j < m; j++ {
					c = append(c, pick("k", strKeys), pick("v", vals))
				}
			case 3:
				c = []string{"MSETNX"}
				for j, m := 0, rapid.IntRange(1, 3).Draw(rt, "m"); j < m; j++ {
					c = append(c, pick("k", strKeys), pick("v", vals))
				}
			case 4:
				c = []string{"MGET"}
				for j, m := 0, rapid.IntRange(1, 4).Draw(rt, "m"); j < m; j++ {
					c = append(c, pick("k", append(strKeys, "missing")))
				}
			case 5:
				c = []string{"APPEND", pick("k", strKeys), pick("v", vals)}
			case 6:
				c = []string{pick("incdec", []string{"INCR", "DECR"}), pick("k", strKeys)}
			case 7:
				c = []string{pick("incdecby", []string{"INCRBY", "DECRBY"}), pick("k", strKeys), pick("delta", deltas)}
			case 8:
				c = []string{"STRLEN", pick("k", append(strKeys, "missing"))}
			case 9:
				c = []string{pick("gr", []string{"GETRANGE", "SUBSTR"}), pick("k", append(strKeys, "missing")), strconv.Itoa(rapid.IntRange(-8, 8).Draw(rt, "s")), strconv.Itoa(rapid.IntRange(-8, 8).Draw(rt, "e"))}
			case 10:
				c = []string{"HSET", pick("h", hashKeys), pick("f", fields), pick("v", vals)}
			case 11:
				c = []string{"HMSET", pick("h", hashKeys)}
				for j, m := 0, rapid.IntRange(1, 3).Draw(rt, "m"); j < m; j++ {
					c = append(c, pick("f", fields), pick("v", vals))
				}
			case 12:
				c = []string{"HMGET", pick("h", append(hashKeys, "missing"))}
				for j, m := 0, rapid.IntRange(1, 4).Draw(rt, "m"); j < m; j++ {
					c = append(c, pick("f", append(fields, "nofield")))
				}
			case 13:
				c = []string{pick("hq", []string{"HEXISTS", "HSTRLEN"}), pick("h", append(hashKeys, "missing")), pick("f", append(fields, "nofield"))}
			case 14:
				c = []string{pick("hq", []string{"HKEYS", "HVALS", "HLEN", "HGETALL"}), pick("h", append(hashKeys, "missing"))}
			case 15:
				c = []string{"HDEL", pick("h", hashKeys), pick("f", fields)}
			case 16:
				c = []string{"SADD", pick("t", setKeys), pick("v", vals), pick("v", vals)}
			case 17:
				c = []string{"SREM", pick("t", setKeys), pick("v", vals)}
			case 18:
				c = []string{"SCARD", pick("t", append(setKeys, "missing"))}
			case 19:
				c = []string{"SISMEMBER", pick("t", append(setKeys, "missing")), pick("v", vals)}
			case 20:
				c = []string{"ZADD", pick("z", zsetKeys)}
				for j, m := 0, rapid.IntRange(1, 3).Draw(rt, "m"); j < m; j++ {
					c = append(c, pick("score", zscores), pick("f", fields))
				}
			case 21:
				c = []string{"ZREM", pick("z", zsetKeys), pick("f", fields)}
			case 22:
				c = []string{"ZCARD", pick("z", append(zsetKeys, "missing"))}
			case 23:
				c = []string{"ZREVRANGE", pick("z", append(zsetKeys, "missing")), strconv.Itoa(rapid.IntRange(-5, 5).Draw(rt, "s")), strconv.Itoa(rapid.IntRange(-5, 5).Draw(rt, "e"))}
				if rapid.Bool().Draw(rt, "ws") {
					c = append(c, "WITHSCORES")
				}
			case 24:
				b := func(l string) string {
					s := pick(l, zscores)
					if rapid.IntRange(0, 2).Draw(rt, l+"ex") == 0 {
						s = "(" + s
					}
					return s
				}
				c = []string{"ZREVRANGEBYSCORE", pick("z", append(zsetKeys, "missing")), b("max"), b("min")}
				if rapid.Bool().Draw(rt, "ws") {
					c = append(c, "WITHSCORES")
				}
				if rapid.Bool().Draw(rt, "lim") {
					c = append(c, "LIMIT", strconv.Itoa(rapid.IntRange(0, 3).Draw(rt, "off")), strconv.Itoa(rapid.IntRange(-1, 3).Draw(rt, "cnt")))
				}
			case 25:
				c = []string{"PING"}
				if rapid.Bool().Draw(rt, "msg") && !h.Avoid("ping-empty") {
					c = append(c, pick("v", vals))
				} else if rapid.Bool().Draw(rt, "msg2") {
					c = append(c, "hello")
				}
			case 26:
				c = []string{"ECHO", pick("v", vals)}
			case 27:
				c = []string{"CONFIG", "SET"}
				for j, m := 0, rapid.IntRange(1, 2).Draw(rt, "m"); j < m; j++ {
					c = append(c, pick("cfg", cfgNames), pick("v", vals))
				}
			case 28:
				c = []string{"CONFIG", "GET"}
				for j, m := 0, rapid.IntRange(1, 3).Draw(rt, "m"); j < m; j++ {
					c = append(c, pick("cfg", cfgNames))
				}
			case 29:
				c = []string{"DEL", pick("k", append(append(append([]string{}, strKeys...), hashKeys...), zsetKeys...))}
			case 30:
				c = []string{"SETNX", pick("k", strKeys), pick("v", vals)}
			case 31:
				c = []string{"GETSET", pick("k", strKeys), pick("v", vals)}
			case 32:
				c = []string{"RPUSH", pick("l", listKeys), pick("v", vals)}
			default:
				c = []string{"ZRANGE", pick("z", zsetKeys), "0", "-1", "WITHSCORES"}
			}
			name := c[0]
			if c12Derived[name] {
				classes["derived:"+name] = true
				if len(c) > 1 && written[c[1]] {
					nt = true
				}
				if name == "CONFIG" || name == "PING" || name == "ECHO" {
					nt = nt || len(c) > 2
				}
			}
			if len(c) > 1 {
				switch name {
				case "SET", "MSET", "MSETNX", "APPEND", "INCR", "DECR", "INCRBY", "DECRBY", "HSET", "HMSET", "SADD", "ZADD", "SETNX", "GETSET", "RPUSH":
					for j := 1; j < len(c); j++ {
						written[c[j]] = true
					}
				}
			}
			// command names are matched case-insensitively: the spelling must not change the answer
			switch rapid.IntRange(0, 5).Draw(rt, "spelling") {
			case 0:
				c[0] = strings.ToLower(c[0])
			case 1:
				c[0] = c[0][:1] + strings.ToLower(c[0][1:])
			case 2:
				b := []byte(strings.ToLower(c[0]))
				for j := range b {
					if j%2 == 1 {
						b[j] = c[0][j]
					}
				}
				c[0] = string(b)
			}
			p.Cmds = append(p.Cmds, cmd(c...))
		}
		data, _ := encodeReqs(p.Cmds)
		var cl []string
		for k := range classes {
			cl = append(cl, k)
		}
		h.Col.Case(nt, data, cl...)
		if h.Col.WantSample() {
			var lines []string
			for i := range p.Cmds {
				lines = append(lines, reqString(p.Cmds[i]))
			}
			h.Col.Sample(map[string]any{"program": lines})
		}
		h.Fail(rt, "c12.prog", p, evalC12(p))
	})
	_ = fmt.Sprint
}
