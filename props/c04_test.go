package props

import (
	"fmt"
	"strings"
	"testing"
	"time"

	exserver "github.com/cybergarage/go-redis/examples/go-redisd/server"
	"github.com/cybergarage/go-redis/redis"
	"pgregory.net/rapid"

	"verif/internal/cmdspec"
	"verif/internal/connsim"
	"verif/internal/doubles"
	"verif/internal/resp"
)

// ---- C04: the reply stream is always well-formed RESP ----

type c04Result struct {
	Nil bool        `json:"nil,omitempty"`
	Val *resp.Value `json:"val,omitempty"`
	Err *resp.Bin   `json:"err,omitempty"`
	Odd string      `json:"odd,omitempty"` // see doubles.Result.Odd
}

type c04Case struct {
	Stream  []resp.Value `json:"stream"`
	Results []c04Result  `json:"results,omitempty"` // scripted results, used in order for pass-through requests
	Handler string       `json:"handler"`           // recorder | example
	Sizes   []int        `json:"sizes,omitempty"`
	// Tail: bytes that are NOT a valid request, sent after the stream (the server may answer them with well-formed
	// error frames or close the connection)
	Tail resp.Bin `json:"tail,omitempty"`
	// Tracer: a tracer is installed on the server (the reply path may do more work then)
	Tracer bool `json:"tracer,omitempty"`
	// Runs: the server object has been started and stopped this many times before (and is running when the stream is served)
	Runs int `json:"runs,omitempty"`
}

func firstName(v resp.Value) string {
	for v.Kind == resp.Array && len(v.Elems) > 0 && v.Elems[0].Kind == resp.Array {
		v = v.Elems[0]
	}
	if v.Kind == resp.Array && len(v.Elems) > 0 && (v.Elems[0].Kind == resp.Bulk || v.Elems[0].Kind == resp.Status) {
		return strings.ToUpper(string(v.Elems[0].Data))
	}
	return ""
}

func evalC04(c c04Case) *Failure {
	var srv *redis.Server
	var rec *doubles.Recorder
	if c.Handler == "example" {
		srv = exserver.NewServer().Server
	} else {
		srv, rec = newRecServer()
		srv.SetAuthCommandHandler(rec)
		next := 0
		rec.ResultFn = func(cl *doubles.Call) doubles.Result {
			// scripted results apply to every handler call, also those made on behalf of composed commands
			// (MGET, HMGET, INCR, HKEYS, ...): whatever a handler returns must not break the framing
			if cl.Frames < len(c.Stream) && next < len(c.Results) {
				r := c.Results[next]
				next++
				res := doubles.Result{Nil: r.Nil, Val: r.Val, Odd: r.Odd}
				if r.Err != nil {
					res.Err = string(*r.Err)
					if res.Err == "" {
						res.Err = " "
					}
				}
				return res
			}
			return doubles.DefaultResult(cl)
		}
	}
	if c.Tracer {
		srv.SetTracer(doubles.NewTracer(&connsim.Log{}))
	}
	if c.Runs > 0 {
		srv.SetPort(0)
		for i := 0; i < c.Runs; i++ {
			if err := srv.Start(); err != nil {
				return failf("harness|start", "%v", err)
			}
			if i < c.Runs-1 {
				srv.Stop()
			}
		}
		defer srv.Stop()
	}
	data, _ := resp.EncodeAll(c.Stream)
	data = append(data, c.Tail...)
	conn := connsim.NewPreloaded(1, connsim.Chunks(data, c.Sizes))
	o := connsim.Serve(srv, conn, serveTimeout())
	var ss []string
	for _, v := range c.Stream {
		ss = append(ss, v.String())
	}
	what := fmt.Sprintf("stream %v (handler %s)", ss, c.Handler)
	if c.Tracer {
		what += " with a tracer installed"
	}
	if c.Runs > 0 {
		what += fmt.Sprintf(" on a server in its run number %d", c.Runs)
	}
	if o.TimedOut {
		return stallFailure("c04", what)
	}
	if o.Panic != nil {
		return failf("c04|panic|"+panicKey(o), "%s: panic: %v", what, o.Panic)
	}
	nreq := len(c.Stream)
	for i, v := range c.Stream {
		// QUIT is answered and ends the connection: nothing behind it is answered
		if v.Kind == resp.Array && len(v.Elems) == 1 && v.Elems[0].Kind == resp.Bulk && strings.EqualFold(string(v.Elems[0].Data), "QUIT") {
			nreq = i + 1
			break
		}
	}
	if len(c.Tail) > 0 {
		what += fmt.Sprintf(" followed by the malformed bytes %q", clip(c.Tail))
		// whatever the server makes of the tail, its output stays well-formed; the requests before it were answered
		frames, _, err := resp.DecodeAll(conn.Out())
		if err != nil {
			return failf("c04|malformed", "%s: the bytes written are not a concatenation of complete RESP values (%v): %q", what, err, clip(conn.Out()))
		}
		if len(frames) < nreq {
			return failf("c04|frame-count", "%s: %d reply frames, the %d well-formed requests alone need %d: %q", what, len(frames), len(c.Stream), nreq, clip(conn.Out()))
		}
		return c04CheckOut(what, conn.Out(), len(frames))
	}
	return c04CheckOut(what, conn.Out(), nreq)
}

// c04CheckOut: the bytes written on a connection are exactly one well-formed frame per request.
func c04CheckOut(what string, out []byte, nreq int) *Failure {
	frames, _, err := resp.DecodeAll(out)
	if err != nil {
		return failf("c04|malformed", "%s: the bytes written are not a concatenation of complete RESP values (%v): %q", what, err, clip(out))
	}
	if len(frames) != nreq {
		return failf("c04|frame-count", "%s: %d reply frames for %d requests: %q", what, len(frames), nreq, clip(out))
	}
	for i, f := range frames {
		bad := false
		f.Walk(func(x resp.Value) {
			if (x.Kind == resp.Status || x.Kind == resp.Error) && strings.ContainsAny(string(x.Data), "\r\n") {
				bad = true
			}
		})
		if bad {
			return failf("c04|crlf-in-line", "%s: reply %d carries CR or LF inside a status/error text: %s", what, i, f)
		}
	}
	return nil
}

// c04Slow: connection A reads its replies slowly (every reply write is held back) while other connections are served;
// what A finally receives must still be one well-formed frame per request, byte for byte what was serialized for it.
type c04Slow struct {
	Handler string       `json:"handler"`
	Stream  []resp.Value `json:"stream"` // A's requests (command arrays)
	Peer    [][]string   `json:"peer"`   // the peer's commands, issued while each of A's replies is held back
}

func evalC04Slow(c c04Slow) *Failure {
	var srv *redis.Server
	if c.Handler == "example" {
		srv = exserver.NewServer().Server
	} else {
		srv, _ = newRecServer()
	}
	var ss []string
	for _, v := range c.Stream {
		ss = append(ss, v.String())
	}
	what := fmt.Sprintf("slow reader: stream %v, peer %v (handler %s)", ss, c.Peer, c.Handler)
	m, err := connsim.NewMulti(srv, 2, serveTimeout())
	if err != nil {
		return failf("harness|multi", "%v", err)
	}
	defer m.CloseAll()
	npeer := 0
	for _, req := range c.Stream {
		m.Conns[0].BlockWrites = true
		m.Conns[0].Feed(req.Bytes())
		if m.Conns[0].WaitWriteBlocked(serveTimeout()) {
			for _, pc := range c.Peer {
				if _, _, err := m.Step(1, resp.Cmd(pc...).Bytes()); err != nil {
					return stallFailure("c04|peer", what)
				}
				npeer++
			}
		}
		if dl := m.Conns[0].WriteDeadline(); !dl.IsZero() && time.Until(dl) < 5*time.Second {
			// the server has armed a write deadline: the slow reader stays slow beyond it
			time.Sleep(time.Until(dl) + 20*time.Millisecond)
		}
		m.Conns[0].UnblockWrites()
		if _, _, err := m.Step(0, nil); err != nil {
			return stallFailure("c04", what)
		}
		for i := range m.Conns {
			if o := m.Outcome(i); o != nil && o.Panic != nil {
				return failf("c04|panic|"+panicKey(*o), "%s: panic: %v", what, o.Panic)
			}
		}
	}
	if before, after, ok := m.Conns[0].Mutated(); ok {
		return failf("c04|reply-bytes-changed-in-flight", "%s: a reply was %q when its write began and %q when it was delivered", what, clip(before), clip(after))
	}
	if m.Conns[0].WriteTimeouts() > 0 && m.Outcome(0) != nil {
		// a reply write timed out and the server gave the connection up: the stream may end inside that frame, nothing may follow it
		if _, _, err := resp.DecodeAll(m.Conns[0].Out()); err != nil && err != resp.ErrIncomplete {
			return failf("c04|malformed", "%s: the bytes written before the connection was given up are not RESP (%v): %q", what, err, clip(m.Conns[0].Out()))
		}
	} else if f := c04CheckOut(what, m.Conns[0].Out(), len(c.Stream)); f != nil {
		return f
	}
	return c04CheckOut(what+" [peer]", m.Conns[1].Out(), npeer)
}

func init() {
	register("c04.stream", evalC04)
	register("c04.slow", evalC04Slow)
}

var hostile = []string{"\r\n+OK\r\n", "\r\n:1\r\n", "\r\n$-1\r\n", "a\r\nb", "\r", "\n", "x\r\n-ERR y\r\n", "\r\n*1\r\n$1\r\na\r\n", "%s%d", "'", "v"}

func genHostile(rt *rapid.T) string {
	switch rapid.IntRange(0, 3).Draw(rt, "hcls") {
	case 0:
		return string(resp.GenBulkPayload(24).Draw(rt, "hb"))
	case 1:
		return rapid.SampledFrom([]string{"k", "h", "l", "s", "z", "f", "m"}).Draw(rt, "plain")
	default:
		return rapid.SampledFrom(hostile).Draw(rt, "hostile")
	}
}

// genReplyTree: any value tree a handler could return; integers are valid decimal.
func genReplyTree() *rapid.Generator[resp.Value] {
	return rapid.Custom(func(rt *rapid.T) resp.Value {
		var rec func(depth int) resp.Value
		rec = func(depth int) resp.Value {
			hi := 6
			if depth >= 2 {
				hi = 4
			}
			switch rapid.IntRange(0, hi).Draw(rt, "rk") {
			case 0:
				return resp.S(genHostile(rt))
			case 1:
				return resp.E(genHostile(rt))
			case 2:
				return resp.I(resp.GenInt64().Draw(rt, "ri"))
			case 3:
				return resp.Nil()
			case 4:
				return resp.B(genHostile(rt))
			default:
				n := rapid.IntRange(0, 3).Draw(rt, "rn")
				v := resp.A()
				for i := 0; i < n; i++ {
					v.Elems = append(v.Elems, rec(depth+1))
				}
				return v
			}
		}
		return rec(0)
	})
}

// cleanLines makes a client-side value valid RESP: line types cannot carry CR or LF.
func cleanLines(v resp.Value) resp.Value {
	if v.Kind == resp.Status || v.Kind == resp.Error {
		v.Data = []byte(strings.NewReplacer("\r", "_", "\n", "_").Replace(string(v.Data)))
	}
	for i := range v.Elems {
		v.Elems[i] = cleanLines(v.Elems[i])
	}
	return v
}

func noQuit(v resp.Value) resp.Value {
	if (v.Kind == resp.Bulk || v.Kind == resp.Status) && strings.EqualFold(string(v.Data), "QUIT") {
		v.Data = []byte("QUIT_")
	}
	for i := range v.Elems {
		v.Elems[i] = noQuit(v.Elems[i])
	}
	return v
}

var c04StoreCmds = [][]string{{"SET", "K", "V"}, {"GET", "K"}, {"GETSET", "K", "V"}, {"APPEND", "K", "V"}, {"HSET", "K", "F", "V"}, {"HGET", "K", "F"}, {"HGETALL", "K"}, {"HKEYS", "K"}, {"HVALS", "K"},
	{"LPUSH", "K", "V"}, {"RPUSH", "K", "V", "V"}, {"LRANGE", "K", "0", "-1"}, {"LPOP", "K"}, {"LINDEX", "K", "0"}, {"SADD", "K", "V"}, {"SMEMBERS", "K"}, {"ZADD", "K", "1", "V"}, {"ZRANGE", "K", "0", "-1", "WITHSCORES"},
	{"KEYS", "V"}, {"KEYS", "*"}, {"TYPE", "K"}, {"RENAME", "K", "K"}, {"DEL", "K"}, {"MGET", "K", "K"}, {"MSET", "K", "V"}, {"SCAN", "0", "MATCH", "V"}, {"INCR", "K"}, {"ECHO", "V"}, {"PING", "V"}, {"STRLEN", "K"},
	{"GETRANGE", "K", "0", "-1"}, {"CONFIG", "GET", "V"}, {"CONFIG", "SET", "verif-x", "V"}, {"SELECT", "V"}, {"EXPIRE", "K", "V"}, {"ZSCORE", "K", "V"}, {"HMGET", "K", "F", "V"}, {"SISMEMBER", "K", "V"}}

// genC04Case draws a client stream and a handler script.
func genC04Case(rt *rapid.T, avoid func(string) bool) (c04Case, map[string]bool) {
	storeCmds := c04StoreCmds
	c := c04Case{Handler: "recorder"}
	if rapid.IntRange(0, 2).Draw(rt, "useexample") == 0 {
		c.Handler = "example"
	}
	labels := map[string]bool{}
	n := rapid.IntRange(1, 6).Draw(rt, "n")
	keys := []string{genHostile(rt), "k"}
	for i := 0; i < n; i++ {
		var v resp.Value
		switch rapid.IntRange(0, 9).Draw(rt, "shape") {
		case 0: // non-array top-level value
			v = genReplyTree().Draw(rt, "toplevel")
			if v.Kind == resp.Array {
				v = resp.S(genHostile(rt))
			}
			labels["non-array-request"] = true
		case 1: // odd first element
			first := []resp.Value{resp.Nil(), resp.I(1), resp.E("x"), resp.A(), resp.A(resp.A()), resp.A(resp.B("GET"), resp.B("k")), resp.A(resp.Nil()), resp.S("GET")}[rapid.IntRange(0, 7).Draw(rt, "first")]
			v = resp.A(first, resp.B(genHostile(rt)))
			labels["odd-command-name"] = true
		case 2: // empty / nested empty arrays
			v = []resp.Value{resp.A(), resp.A(resp.A()), resp.A(resp.A(resp.A()))}[rapid.IntRange(0, 2).Draw(rt, "empty")]
			labels["empty-array"] = true
		case 3: // hostile command name
			v = resp.A(resp.B(genHostile(rt)), resp.B(genHostile(rt)))
			labels["hostile-name"] = true
		case 4: // grammar instance with binary arguments
			name := rapid.SampledFrom(cmdspec.Names).Draw(rt, "cmd")
			if name == "QUIT" {
				name = "GET"
			}
			in := (&cmdspec.G{T: rt, Avoid: avoid}).Gen(name)
			v = resp.CmdB(in.Args...)
		default: // store command with hostile strings in key/field/value positions
			tpl := rapid.SampledFrom(storeCmds).Draw(rt, "tpl")
			args := make([]string, len(tpl))
			for j, a := range tpl {
				switch a {
				case "K":
					args[j] = rapid.SampledFrom(keys).Draw(rt, "key")
				case "F", "V":
					args[j] = genHostile(rt)
				default:
					args[j] = a
				}
			}
			v = resp.Cmd(args...)
		}
		v = cleanLines(noQuit(v))
		c.Stream = append(c.Stream, v)
	}
	for _, v := range c.Stream {
		v.Walk(func(x resp.Value) {
			if x.Kind != resp.Array && strings.ContainsAny(string(x.Data), "\r\n") {
				labels["crlf-in-request"] = true
			}
		})
	}
	if c.Handler == "recorder" {
		k := rapid.IntRange(0, 6).Draw(rt, "nresults")
		for i := 0; i < k; i++ {
			var r c04Result
			switch rapid.IntRange(0, 6).Draw(rt, "rescls") {
			case 6:
				r.Odd = rapid.SampledFrom([]string{"nil-array", "no-type", "unknown-type", "nil-in-array", "nil-in-big-array", "nil-in-huge-array", "walked-array"}).Draw(rt, "odd")
				labels["nil-result"] = true
				labels["odd-message"] = true
			case 0:
				r.Nil = true
				labels["nil-result"] = true
			case 1:
				e := resp.Bin(genHostile(rt))
				r.Err = &e
				labels["error-result"] = true
			case 2:
				e := resp.Bin(genHostile(rt))
				v := genReplyTree().Draw(rt, "resval")
				r.Err, r.Val = &e, &v
				labels["error-result"] = true
			default:
				v := genReplyTree().Draw(rt, "resval")
				r.Val = &v
				v.Walk(func(x resp.Value) {
					if (x.Kind == resp.Status || x.Kind == resp.Error) && strings.ContainsAny(string(x.Data), "\r\n") {
						labels["crlf-in-handler-line"] = true
					}
				})
			}
			c.Results = append(c.Results, r)
		}
	}
	data, _ := resp.EncodeAll(c.Stream)
	if rapid.IntRange(0, 3).Draw(rt, "chunked") == 0 {
		c.Sizes = resp.GenSizes(data).Draw(rt, "sizes")
	}
	return c, labels
}

func TestC04(t *testing.T) {
	h := newHarness(t, "C04", "client streams of 1..6 valid RESP values of every type: command arrays with hostile arguments (all byte values, CRLF followed by forged +OK/:1/$-1 frames) in names, keys and values; "+
		"non-array top-level values; arrays whose first element is null, an integer, an error, a nested or empty array; empty arrays. Handler = recording double scripted with arbitrary value trees, nil messages, "+
		"errors with arbitrary text, message+error (for pass-through commands), or the bundled example store (stored values echoed back). A generator appends bytes that are not a request (blank lines, stray CR/LF, inline text, bulk strings longer than declared, mutated frames): whatever is written in answer must be frames too. A generator of pipelines with replies of several KiB and QUIT somewhere inside (everything written before the connection ends must be complete frames). Another holds back every reply write of one connection (a slow reader) while a peer connection is served, then lets it through: the bytes delivered must be the bytes serialized. Oracle: the whole output decodes under the strict decoder into exactly one frame per request, "+
		"no status/error frame carries CR or LF. Non-trivial: CR/LF in a position that can reach a reply, a request that is not an array of bulks, or a nil/error handler result. Distinct = distinct (stream, script).")
	defer h.Finish()
	h.Probes()

	h.Rapid("streams", h.N(30000, 100000), func(rt *rapid.T) {
		c, labels := genC04Case(rt, h.Avoid)
		c.Tracer = rapid.IntRange(0, 3).Draw(rt, "tracer") == 0
		if rapid.IntRange(0, 3).Draw(rt, "started") == 0 {
			c.Runs = rapid.IntRange(1, 3).Draw(rt, "runs")
		}
		data, _ := resp.EncodeAll(c.Stream)
		nt := labels["crlf-in-request"] || labels["non-array-request"] || labels["odd-command-name"] || labels["empty-array"] || labels["nil-result"] || labels["error-result"] || labels["crlf-in-handler-line"]
		var cl []string
		for l := range labels {
			cl = append(cl, l)
		}
		cl = append(cl, "handler:"+c.Handler)
		canon := append(append([]byte{}, data...), []byte(fmt.Sprintf("%v|%s|%v|%v|%d", c.Results, c.Handler, c.Sizes, c.Tracer, c.Runs))...)
		h.Col.Case(nt, canon, cl...)
		if h.Col.WantSample() {
			var ss []string
			for _, v := range c.Stream {
				ss = append(ss, v.String())
			}
			h.Col.Sample(map[string]any{"stream": ss, "handler": c.Handler, "scripted_results": len(c.Results)})
		}
		h.Fail(rt, "c04.stream", c, evalC04(c))
	})

	// well-formed requests followed by bytes that are not a request: replies to protocol errors are frames too
	h.Rapid("malformed-tail", h.N(4000, 60000), func(rt *rapid.T) {
		c := c04Case{Handler: rapid.SampledFrom([]string{"example", "recorder"}).Draw(rt, "handler")}
		for i, n := 0, rapid.IntRange(0, 2).Draw(rt, "nreq"); i < n; i++ {
			c.Stream = append(c.Stream, resp.Cmd(rapid.SampledFrom([][]string{{"PING"}, {"ECHO", "x"}, {"GET", "k"}, {"SET", "k", "v"}}).Draw(rt, "req")...))
		}
		switch rapid.IntRange(0, 2).Draw(rt, "tailcls") {
		case 0:
			c.Tail = []byte(rapid.SampledFrom([]string{"\r\n", "\n", "\r", "\r\r\n", "PING\r\n", "\r\nPING\r\n", "$3\r\nabcde\r\n", "$3\r\nabc\r\r\n", "$3\r\nabc\n\n", "*1\r\n$4\r\nPING\r\n\r\n", "*1\r\n\r\n", "*2\r\n$1\r\na\r\n\n",
				"*1\r\n\n", "$\r\n", "*\n\r\n", "+\rOK\r\n", "?\r\n", "\x00\r\n", "$1\r\n\r\r\n\r\n", "*1\r\n$1\r\n\n\r\r\n"}).Draw(rt, "fixedtail"))
		default:
			base := resp.Cmd(rapid.SampledFrom([][]string{{"PING"}, {"GET", "k"}, {"SET", "k", "a\r\nb"}}).Draw(rt, "base")...).Bytes()
			c.Tail = mutate(rt, base, []byte("\r\n"))
			if _, _, err := resp.DecodeAll(c.Tail); err == nil || hazardous(c.Tail) {
				c.Tail = []byte("\r\n") // the mutation left a valid stream (or a size bomb): use the blank line
			}
		}
		data, _ := resp.EncodeAll(c.Stream)
		h.Col.Case(true, append(append(data, 0), c.Tail...), "malformed-tail", "handler:"+c.Handler)
		h.Fail(rt, "c04.stream", c, evalC04(c))
	})

	// replies of several KiB in one pipeline, QUIT somewhere inside it: whatever buffering the reply path uses,
	// what has been written when the connection ends is complete frames only
	h.Rapid("big-replies", h.N(1500, 30000), func(rt *rapid.T) {
		c := c04Case{Handler: rapid.SampledFrom([]string{"example", "example", "recorder"}).Draw(rt, "handler")}
		big := strings.Repeat(rapid.SampledFrom([]string{"A", "xy", "\r\n+OK"}).Draw(rt, "motif"), rapid.SampledFrom([]int{10, 30, 100, 700, 2000, 5000}).Draw(rt, "rep"))
		c.Tracer = rapid.IntRange(0, 2).Draw(rt, "tracer") == 0
		c.Stream = append(c.Stream, resp.Cmd("SET", "k", big))
		n := rapid.IntRange(1, 8).Draw(rt, "n")
		quitAt := rapid.IntRange(0, n+1).Draw(rt, "quitat") // n+1: no QUIT
		for i := 0; i < n; i++ {
			if i == quitAt {
				c.Stream = append(c.Stream, resp.Cmd(rapid.SampledFrom([]string{"QUIT", "quit"}).Draw(rt, "quit")))
			}
			switch rapid.IntRange(0, 3).Draw(rt, "bigcmd") {
			case 0:
				c.Stream = append(c.Stream, resp.Cmd("GET", "k"))
			case 1:
				args := []string{"MGET"}
				for j, m := 0, rapid.IntRange(1, 8).Draw(rt, "nkeys"); j < m; j++ {
					args = append(args, rapid.SampledFrom([]string{"k", "k", "missing"}).Draw(rt, "mkey"))
				}
				c.Stream = append(c.Stream, resp.Cmd(args...))
			case 2:
				c.Stream = append(c.Stream, resp.Cmd("ECHO", big))
			default:
				c.Stream = append(c.Stream, resp.Cmd("PING"))
			}
		}
		if quitAt == n {
			c.Stream = append(c.Stream, resp.Cmd("QUIT"))
		}
		data, _ := resp.EncodeAll(c.Stream)
		if rapid.IntRange(0, 2).Draw(rt, "chunked") == 0 {
			c.Sizes = resp.GenSizes(data).Draw(rt, "sizes")
		}
		h.Col.Case(true, append(append([]byte{}, data...), []byte(fmt.Sprint(c.Handler, c.Sizes))...), "big-replies", "handler:"+c.Handler)
		h.Fail(rt, "c04.stream", c, evalC04(c))
	})

	// replies whose length has eight digits
	if h.Shard == 0 {
		for _, n := range []int{9999999, 10000000, 12345678} {
			c := c04Case{Handler: "recorder", Stream: []resp.Value{resp.Cmd("ECHO", strings.Repeat("e", n)), resp.Cmd("PING")}}
			h.Col.Case(true, []byte(fmt.Sprint("huge", n)), "huge-reply")
			h.Report("c04.stream", c, evalC04(c))
		}
	}

	h.Rapid("slow-reader", h.N(1500, 30000), func(rt *rapid.T) {
		c := c04Slow{Handler: rapid.SampledFrom([]string{"example", "recorder"}).Draw(rt, "handler")}
		arg := func(label string) string {
			if rapid.Bool().Draw(rt, label+"-hostile") {
				return genHostile(rt)
			}
			return strings.Repeat(rapid.SampledFrom([]string{"A", "xy", "\r\n"}).Draw(rt, label+"-motif"), rapid.SampledFrom([]int{1, 8, 64, 700}).Draw(rt, label+"-rep"))
		}
		for i, n := 0, rapid.IntRange(1, 3).Draw(rt, "nreq"); i < n; i++ {
			var cmd []string
			switch rapid.IntRange(0, 5).Draw(rt, "acmd") {
			case 5:
				// run-time options any client may set
				cmd = []string{"CONFIG", "SET", rapid.SampledFrom([]string{"timeout", "tcp-keepalive", "maxclients"}).Draw(rt, "opt"), "1"}
			case 0:
				cmd = []string{"ECHO", arg("echo")}
			case 1:
				cmd = []string{"SET", "k", arg("set")}
			case 2:
				cmd = []string{"GET", "k"}
			case 3:
				cmd = []string{"NOSUCH" + arg("name")}
			default:
				cmd = []string{"MGET", "k", "k", "missing"}
			}
			c.Stream = append(c.Stream, resp.Cmd(cmd...))
		}
		for i, n := 0, rapid.IntRange(1, 3).Draw(rt, "npeer"); i < n; i++ {
			c.Peer = append(c.Peer, rapid.SampledFrom([][]string{{"PING"}, {"ECHO", "peer"}, {"GET", "k"}, {"SET", "p", "1"}, {"DEL", "k"}, {"NOSUCH"}}).Draw(rt, "pcmd"))
		}
		data, _ := resp.EncodeAll(c.Stream)
		h.Col.Case(true, append(data, []byte(fmt.Sprint(c.Handler, c.Peer))...), "slow-reader", "handler:"+c.Handler)
		h.Fail(rt, "c04.slow", c, evalC04Slow(c))
	})
}
