package props

import (
	"crypto/tls"
	"fmt"
	"io"
	"net"
	"os"
	"strings"
	"sync"
	"testing"
	"time"

	"github.com/cybergarage/go-redis/redis"
	"github.com/cybergarage/go-redis/redis/auth"
	"pgregory.net/rapid"

	"verif/internal/connsim"
	"verif/internal/doubles"
	"verif/internal/resp"
	"verif/internal/sched"
)

// ---- C19: connection resources are released however the connection ends ----

// (1) scripted connections: deterministic endings

type c19Scripted struct {
	Reqs           [][]*resp.Bin `json:"reqs"`
	Ending         string        `json:"ending"` // fin | fin-full | quit | malformed | write-fail | tls-rejected
	Cut            int           `json:"cut"`    // fin*: stream ends after this many bytes; malformed: garbage inserted here
	WriteFailAfter int           `json:"write_fail_after"`
}

func evalC19Scripted(c c19Scripted) *Failure {
	srv, _ := newRecServer()
	pc := pipeCase{Reqs: c.Reqs}
	data, _ := resp.EncodeAll(pc.values())
	if c.Cut > len(data) {
		c.Cut = len(data)
	}
	stream := data
	switch c.Ending {
	case "fin", "fin-full":
		stream = data[:c.Cut]
	case "quit":
		stream = append(append([]byte{}, data[:0]...), data...)
		stream = append(stream, resp.Cmd("QUIT").Bytes()...)
		stream = append(stream, resp.Cmd("GET", "after-quit").Bytes()...)
	case "malformed":
		stream = append(append(append([]byte{}, data[:c.Cut]...), []byte("!!not-resp\r\n$-x\r\n")...), data[c.Cut:]...)
	}
	conn := connsim.NewPreloaded(1, [][]byte{stream})
	conn.FullClose = c.Ending == "fin-full"
	if c.Ending == "write-fail" {
		conn.WriteFailAfter = c.WriteFailAfter
	}
	what := fmt.Sprintf("pipeline %v ending %s cut %d", pc.strings(), c.Ending, c.Cut)
	var o connsim.Outcome
	if c.Ending == "tls-rejected" {
		// a TLS connection whose certificate check fails: drive the TLS entry point with an empty connection state
		srv.AddAuthenticator(auth.NewCertificateAuthenticatorWith(auth.WithCommonName("someone")))
		ch := make(chan connsim.Outcome, 1)
		go func() {
			var out connsim.Outcome
			defer func() {
				if r := recover(); r != nil {
					out.Panic = r
				}
				ch <- out
			}()
			out.Err = srv.VerifServeTLSConn(conn, &tls.ConnectionState{})
			out.Returned = true
		}()
		select {
		case o = <-ch:
		case <-time.After(serveTimeout()):
			o = connsim.Outcome{TimedOut: true}
		}
	} else {
		o = connsim.Serve(srv, conn, serveTimeout())
	}
	if o.TimedOut {
		return stallFailure("c19", what)
	}
	if o.Panic != nil {
		return failf("c19|panic|"+panicKey(o), "%s: panic: %v", what, o.Panic)
	}
	if conn.Closes() == 0 {
		return failf("c19|socket-not-closed|"+c.Ending, "%s: the connection loop ended without closing the socket", what)
	}
	if n := len(srv.Conns()); n != 0 {
		return failf("c19|registry-entry-left|"+c.Ending, "%s: %d connections are still registered after the connection ended", what, n)
	}
	if c.Ending == "tls-rejected" && len(conn.Out()) != 0 {
		return failf("c19|rejected-served", "%s: a connection with a rejected certificate was written to: %q", what, clip(conn.Out()))
	}
	return nil
}

// c19Shutdown: the server is stopped from INSIDE a command (an application executor such as SHUTDOWN calls Server.Stop or
// Restart); the calling connection and a bystander are closed, the registry is empty, the call returns.
type c19Shutdown struct {
	Call       string `json:"call"`       // stop | restart
	Bystanders int    `json:"bystanders"` // idle connections besides the caller
	Before     int    `json:"before"`     // requests the caller has been answered before
}

func evalC19Shutdown(c c19Shutdown) *Failure {
	srv, _ := newRecServer()
	srv.SetPort(0)
	returned := make(chan error, 1)
	srv.RegisterExexutor("SHUTDOWN", func(conn *redis.Conn, cmd string, args redis.Arguments) (*redis.Message, error) {
		var err error
		if c.Call == "restart" {
			err = srv.Restart()
		} else {
			err = srv.Stop()
		}
		returned <- err
		return redis.NewOKMessage(), nil
	})
	if err := srv.Start(); err != nil {
		return failf("harness|start", "Start: %v", err)
	}
	what := fmt.Sprintf("an executor calls Server.%s from inside its command; %d idle bystanders, caller answered %d requests before", c.Call, c.Bystanders, c.Before)
	hung := false
	defer func() {
		if !hung {
			srv.Stop()
		}
	}()
	m, err := connsim.NewMulti(srv, 1+c.Bystanders, serveTimeout())
	if err != nil {
		return failf("harness|multi", "%v", err)
	}
	for i := 0; i < c.Before; i++ {
		if _, _, err := m.Step(0, resp.Cmd("GET", "k").Bytes()); err != nil {
			return stallFailure("c19", what)
		}
	}
	m.Conns[0].Feed(resp.Cmd("SHUTDOWN").Bytes())
	select {
	case <-returned:
	case <-time.After(20 * time.Second):
		hung = true
		return failf("c19|stop-hangs", "%s: the call did not return within 20s (%d connections registered)", what, len(srv.Conns()))
	}
	// every connection that was open at the call is closed by the server and its loop ends
	for i := range m.Conns {
		deadline := time.Now().Add(10 * time.Second)
		for m.Outcome(i) == nil && time.Now().Before(deadline) {
			time.Sleep(time.Millisecond)
		}
		if m.Outcome(i) == nil {
			return failf("c19|client-not-closed|stop-from-handler", "%s: the loop of connection %d has not ended 10s after the call returned (socket closed: %v)", what, i, m.Conns[i].Closed())
		}
		if !m.Conns[i].Closed() {
			return failf("c19|socket-not-closed|stop-from-handler", "%s: connection %d was not closed", what, i)
		}
	}
	if n := len(srv.Conns()); n != 0 {
		return failf("c19|registry-entry-left|stop-from-handler", "%s: %d connections are still registered", what, n)
	}
	return nil
}

// c19Unread: the client has sent a request and does not read the reply (the server is blocked writing it) when Stop
// is called: Stop closes that connection too and its loop ends.
type c19Unread struct {
	Cmd    []string `json:"cmd"`
	Before int      `json:"before"`
	// SlowCloseMS: closing the transport takes this long (the client is idle and reads; Cmd is not sent)
	SlowCloseMS int `json:"slow_close_ms,omitempty"`
}

func evalC19Unread(c c19Unread) *Failure {
	srv, _ := newRecServer()
	srv.SetPort(0)
	if err := srv.Start(); err != nil {
		return failf("harness|start", "Start: %v", err)
	}
	what := fmt.Sprintf("the client sends %v after %d answered requests and does not read the reply; then Stop", c.Cmd, c.Before)
	m, err := connsim.NewMulti(srv, 1, serveTimeout())
	if err != nil {
		srv.Stop()
		return failf("harness|multi", "%v", err)
	}
	for i := 0; i < c.Before; i++ {
		if _, _, err := m.Step(0, resp.Cmd("GET", "k").Bytes()); err != nil {
			srv.Stop()
			return stallFailure("c19", what)
		}
	}
	if c.SlowCloseMS > 0 {
		what = fmt.Sprintf("an idle connection whose transport takes %d ms to close; then Stop", c.SlowCloseMS)
		m.Conns[0].CloseDelay = time.Duration(c.SlowCloseMS) * time.Millisecond
	} else {
		m.Conns[0].BlockWrites = true
		m.Conns[0].Feed(resp.Cmd(c.Cmd...).Bytes())
		if !m.Conns[0].WaitWriteBlocked(serveTimeout()) {
			srv.Stop()
			return failf("harness|not-blocked", "%s: the server did not start writing a reply", what)
		}
	}
	stopped := make(chan error, 1)
	go func() { stopped <- srv.Stop() }()
	select {
	case err := <-stopped:
		if err != nil && c.SlowCloseMS > 0 {
			return failf("c19|stop-error", "%s: Stop returned %v", what, err)
		}
	case <-time.After(20 * time.Second):
		m.Conns[0].UnblockWrites()
		return failf("c19|stop-hangs", "%s: Stop did not return within 20s", what)
	}
	deadline := time.Now().Add(10 * time.Second)
	for m.Outcome(0) == nil && time.Now().Before(deadline) {
		time.Sleep(time.Millisecond)
	}
	closed, ended := m.Conns[0].Closed(), m.Outcome(0) != nil
	m.Conns[0].UnblockWrites()
	if !closed {
		return failf("c19|client-not-closed|server-stop(reply unread)", "%s: after Stop returned the connection is still open (its loop ended: %v, registry: %d entries)", what, ended, len(srv.Conns()))
	}
	if !ended {
		return failf("c19|goroutine-leak|reply-unread", "%s: 10s after Stop returned the loop of the connection has not ended", what)
	}
	if n := len(srv.Conns()); n != 0 {
		return failf("c19|registry-entry-left|reply-unread", "%s: %d connections are still registered", what, n)
	}
	// nothing of the sweep is left behind either
	deadline = time.Now().Add(time.Duration(c.SlowCloseMS)*time.Millisecond + 5*time.Second)
	for {
		left := ""
		for _, g := range strings.Split(connsim.Stacks(), "\n\n") {
			if strings.Contains(g, "go-redis/redis.(*ConnManager)") {
				left = g
			}
		}
		if left == "" {
			return nil
		}
		if time.Now().After(deadline) {
			return failf("c19|goroutine-leak|sweep", "%s: a goroutine of the connection sweep is still there after Stop returned and the connection was closed:\n%s", what, firstLines(left, 12))
		}
		time.Sleep(5 * time.Millisecond)
	}
}

// (2) real sockets: churn plans

type c19ConnSpec struct {
	Mode string `json:"mode"` // fin | fin-mid | rst | quit | malformed | stop-reading | tls-ok | tls-nocert | tls-wrongname | tls-garbage | idle
	Reqs int    `json:"reqs"` // requests sent before the ending
}

type c19Plan struct {
	Conns    []c19ConnSpec `json:"conns"`
	InFlight int           `json:"in_flight"`
	Stop     bool          `json:"stop"` // end the plan with Server.Stop while idle connections are open
	Cycles   int           `json:"cycles,omitempty"`
	// Reconfig: a port of the running server is reconfigured at run time before the final Stop:
	// setport0 | settlsport0 (by the embedding program), config-port0 | config-tlsport0 | config-port-text (CONFIG SET by a client)
	Reconfig string `json:"reconfig,omitempty"`
}

func (p c19Plan) describe() string {
	var parts []string
	for _, c := range p.Conns {
		parts = append(parts, fmt.Sprintf("%s/%d", c.Mode, c.Reqs))
	}
	return fmt.Sprintf("in_flight=%d stop=%v cycles=%d reconfig=%q conns=[%s]", p.InFlight, p.Stop, p.Cycles, p.Reconfig, strings.Join(parts, " "))
}

// settleBudget bounds the wait for in-flight kernel events and goroutine scheduling after a churn; a leak never
// settles, a loaded machine does.
const settleBudget = 15 * time.Second

func countFDs() int {
	ents, err := os.ReadDir("/proc/self/fd")
	if err != nil {
		return -1
	}
	return len(ents)
}

func fdTargets() []string {
	ents, _ := os.ReadDir("/proc/self/fd")
	var out []string
	for _, e := range ents {
		l, _ := os.Readlink("/proc/self/fd/" + e.Name())
		out = append(out, e.Name()+"->"+l)
	}
	return out
}

// evalC19Plan: every verdict of a churn plan that rests on a time budget (a reply, a close or a release that did not
// come in time) is confirmed by running the plan once more with three times the budgets: a hang fails again, a
// machine that was merely slow does not - that outcome is reported as inconclusive, never as a violation.
func evalC19Plan(p c19Plan) *Failure {
	f := evalC19PlanOnce(p, 1)
	if f == nil || !c19TimeBased(f.Key) {
		return f
	}
	if f2 := evalC19PlanOnce(p, 3); f2 != nil {
		return f2
	}
	return failf("harness|slow-machine", "a time budget was exceeded once (%s) and held when the plan was repeated with three times the budgets: %s", f.Key, f.Detail)
}

func c19TimeBased(key string) bool {
	for _, k := range []string{"c19|not-serving", "c19|tls-not-serving", "c19|client-not-closed", "c19|release-blocked-by-stalled-peer", "c19|not-accepting", "c19|registry-leak", "c19|goroutine-leak", "c19|descriptor-leak", "c19|quit-reply"} {
		if strings.HasPrefix(key, k) {
			return true
		}
	}
	return false
}

func evalC19PlanOnce(p c19Plan, scale int) *Failure {
	sc := time.Duration(scale)
	lifecycleMu.Lock()
	defer lifecycleMu.Unlock()
	pk := sharedPKI()
	// warm up the runtime's own descriptors (netpoller) before taking the baseline
	if l, err := net.Listen("tcp", "127.0.0.1:0"); err == nil {
		if c, err := net.Dial("tcp", l.Addr().String()); err == nil {
			c.Close()
		}
		l.Close()
	}
	what := p.describe()
	srv := redis.NewServer()
	rec := doubles.NewRecorder()
	rec.Discard = true // the oracle of a churn plan never reads the calls; retained 32 KiB results of many cycles exhaust memory
	big := strings.Repeat("x", 32*1024)
	rec.ResultFn = func(cl *doubles.Call) doubles.Result {
		if cl.Method == "Get" && len(cl.Args) > 0 && cl.Args[0] == "big" {
			v := resp.B(big)
			return doubles.Result{Val: &v}
		}
		return doubles.DefaultResult(cl)
	}
	srv.SetCommandHandler(rec)
	srv.AddAuthenticator(auth.NewCertificateAuthenticatorWith(auth.WithCommonName(c09Rule)))
	srv.ServerCert, srv.ServerKey, srv.CACerts = pk.Server.CertPEM, pk.Server.KeyPEM, pk.Root.CertPEM
	time.Sleep(5 * time.Millisecond)
	fd0 := countFDs()
	port, tlsPort, err := startOnFreePorts(srv, true)
	if err != nil {
		return failf("harness|start", "Start: %v", err)
	}
	stopped := false
	defer func() {
		if !stopped {
			srv.Stop()
		}
	}()
	fd1 := countFDs()
	plainAddr, tlsAddr := fmt.Sprintf("127.0.0.1:%d", port), fmt.Sprintf("127.0.0.1:%d", tlsPort)

	var mu sync.Mutex
	var fails []*Failure
	fail := func(f *Failure) {
		mu.Lock()
		fails = append(fails, f)
		mu.Unlock()
	}
	expectClosed := func(conn net.Conn, mode string) {
		conn.SetReadDeadline(time.Now().Add(10 * time.Second * sc))
		buf := make([]byte, 4096)
		for {
			_, err := conn.Read(buf)
			if err == nil {
				continue
			}
			if ne, ok := err.(net.Error); ok && ne.Timeout() {
				fail(failf("c19|client-not-closed|"+mode, "%s: the server did not close the socket of a connection ending with %s", what, mode))
			}
			return
		}
	}
	var idleReady, stallerReady sync.WaitGroup
	var releaseStallers, leave chan struct{}
	runConn := func(spec c19ConnSpec, idle chan struct{}, stalled func()) {
		var readyOnce sync.Once
		markReady := func() { readyOnce.Do(idleReady.Done) }
		if strings.HasPrefix(spec.Mode, "idle") {
			defer markReady() // also when it fails before it becomes idle
		}
		isTLS := strings.HasPrefix(spec.Mode, "tls-") || spec.Mode == "idle-tls-stall"
		addr := plainAddr
		if isTLS {
			addr = tlsAddr
		}
		raw, err := net.DialTimeout("tcp", addr, 5*time.Second*sc)
		if err != nil {
			fail(failf("c19|not-accepting", "%s: dial for mode %s: %v", what, spec.Mode, err))
			return
		}
		defer raw.Close()
		var conn net.Conn = raw
		switch spec.Mode {
		case "tls-ok":
			tc := tls.Client(raw, c09ClientConfig(pk, "right"))
			tc.SetDeadline(time.Now().Add(5 * time.Second * sc))
			if err := tc.Handshake(); err != nil {
				fail(failf("c19|tls-not-serving", "%s: valid TLS handshake failed: %v", what, err))
				return
			}
			conn = tc
		case "tls-nocert":
			tc := tls.Client(raw, c09ClientConfig(pk, "none"))
			tc.SetDeadline(time.Now().Add(5 * time.Second * sc))
			tc.Handshake()
			// judged on the socket itself: a handshake that failed or timed out on the client side leaves a sticky error on
			// the tls.Conn, which says nothing about what the server did with its end
			expectClosed(raw, spec.Mode)
			return
		case "tls-wrongname":
			tc := tls.Client(raw, c09ClientConfig(pk, "wrongname"))
			tc.SetDeadline(time.Now().Add(5 * time.Second * sc))
			tc.Handshake()
			expectClosed(raw, spec.Mode)
			return
		case "tls-garbage":
			raw.Write([]byte("\x16\x03\x01\x00\x05hello-not-tls"))
			expectClosed(raw, spec.Mode)
			return
		}
		if spec.Mode == "idle-tls-stall" {
			// a TLS client that never starts its handshake and stays connected until the server is stopped
			markReady()
			<-idle
			expectClosed(raw, "server-stop(tls handshake pending)")
			return
		}
		for i := 0; i < spec.Reqs; i++ {
			if _, err := roundTrip(conn, resp.Cmd("GET", fmt.Sprintf("k%d", i)).Bytes(), 10*time.Second*sc); err != nil {
				fail(failf("c19|not-serving", "%s: request %d on a %s connection: %v", what, i, spec.Mode, err))
				return
			}
		}
		switch spec.Mode {
		case "fin", "tls-ok":
			conn.Close()
		case "fin-mid":
			conn.Write([]byte("*2\r\n$3\r\nGET\r\n$5\r\nab"))
			conn.Close()
		case "rst":
			if tc, ok := raw.(*net.TCPConn); ok {
				tc.SetLinger(0)
			}
			conn.Write([]byte("*2\r\n$3\r\nGET\r\n"))
			raw.Close()
		case "quit":
			if v, err := roundTrip(conn, resp.Cmd("QUIT").Bytes(), 5*time.Second*sc); err != nil || !v.Equal(resp.S("OK")) {
				fail(failf("c19|quit-reply", "%s: QUIT answered %v, %v", what, v, err))
				return
			}
			expectClosed(conn, spec.Mode)
		case "malformed":
			conn.Write([]byte("*1\r\n$-x\r\n"))
			expectClosed(conn, spec.Mode)
		case "quit-hold", "malformed-hold":
			// the server ends the connection; the client keeps its own end open: the server side must be released anyway
			if spec.Mode == "quit-hold" {
				if v, err := roundTrip(conn, resp.Cmd("QUIT").Bytes(), 10*time.Second*sc); err != nil || !v.Equal(resp.S("OK")) {
					fail(failf("c19|quit-reply", "%s: QUIT answered %v, %v", what, v, err))
					return
				}
			} else {
				conn.Write([]byte("*1\r\n$-x\r\n"))
			}
			expectClosed(conn, spec.Mode)
			stalled()
			<-releaseStallers
		case "stop-reading":
			// ask for far more reply data than the socket buffers hold and never read it; stay connected until the
			// other connections of the cycle have ended and have been released, then reset
			req := resp.Cmd("GET", "big").Bytes()
			conn.SetWriteDeadline(time.Now().Add(2 * time.Second * sc))
			for i := 0; i < 1500; i++ {
				if _, err := conn.Write(req); err != nil {
					break
				}
			}
			stalled()
			<-releaseStallers
			if tc, ok := raw.(*net.TCPConn); ok {
				tc.SetLinger(0)
			}
			raw.Close()
		case "idle-leave":
			markReady()
			<-leave // leaves on its own at the very moment the server is stopped
		case "idle":
			markReady()
			<-idle // stays connected until the plan's Stop
			expectClosed(conn, "server-stop")
		}
	}

	cycles := p.Cycles
	if cycles < 1 {
		cycles = 1
	}
	var series []string
	for cy := 0; cy < cycles; cy++ {
		mu.Lock()
		failed := len(fails) > 0
		mu.Unlock()
		if failed && !(p.Stop && cy == cycles-1) {
			continue // a connection of an earlier cycle has failed already: go straight to the end of the plan
		}
		idle := make(chan struct{})
		sem := make(chan struct{}, p.InFlight)
		var wg, idleWg, stallWg sync.WaitGroup
		nIdle, nStall, nHold := 0, 0, 0
		releaseStallers = make(chan struct{})
		leave = make(chan struct{})
		for _, spec := range p.Conns {
			if spec.Mode == "stop-reading" || strings.HasSuffix(spec.Mode, "-hold") {
				if spec.Mode == "stop-reading" {
					nStall++
				}
				nHold++
				stallerReady.Add(1)
				stallWg.Add(1)
				go func(spec c19ConnSpec) {
					defer stallWg.Done()
					var once sync.Once
					stalled := func() { once.Do(stallerReady.Done) }
					defer stalled() // also when it fails before it stalls
					runConn(spec, idle, stalled)
				}(spec)
				continue
			}
			if strings.HasPrefix(spec.Mode, "idle") {
				if !p.Stop || cy != cycles-1 {
					continue
				}
				nIdle++
				idleReady.Add(1)
				idleWg.Add(1)
				go func(spec c19ConnSpec) {
					defer idleWg.Done()
					runConn(spec, idle, nil)
				}(spec)
				continue
			}
			wg.Add(1)
			go func(spec c19ConnSpec) {
				defer wg.Done()
				sem <- struct{}{}
				defer func() { <-sem }()
				runConn(spec, idle, nil)
			}(spec)
		}
		wg.Wait()
		if nHold > 0 {
			// the other connections have ended while the stallers are still connected and not reading, and the
			// "-hold" clients keep their end open after the server ended the connection: resources must be
			// released regardless - the registry may hold only the non-reading stallers (and idle connections)
			stallerReady.Wait()
			deadline := time.Now().Add(settleBudget * sc)
			for {
				// one reading per iteration: a connection whose client has long finished may be accepted (and
				// registered for a moment) only now, so the count can still go up before it settles
				regs := srv.Conns()
				if len(regs) <= nStall+nIdle {
					break
				}
				if time.Now().After(deadline) {
					var peers []string
					for _, rc := range regs {
						peers = append(peers, rc.RemoteAddr().String())
					}
					close(releaseStallers)
					stallWg.Wait()
					return failf("c19|release-blocked-by-stalled-peer", "%s: registered peers %v: %d connections are still registered 15s after every connection except %d non-reading clients had ended (clients that merely keep their end open after QUIT or a protocol error do not count): the server side of an ended connection was not released", what, peers, len(regs), nStall)
				}
				time.Sleep(2 * time.Millisecond)
			}
		}
		close(releaseStallers)
		stallWg.Wait()
		if p.Stop && cy == cycles-1 {
			// the churn is over; wait until the idle connections have done their requests and are registered, then stop the server under them
			idleReady.Wait()
			deadline := time.Now().Add(5 * time.Second * sc)
			for len(srv.Conns()) < nIdle && time.Now().Before(deadline) {
				time.Sleep(time.Millisecond)
			}
			switch p.Reconfig {
			case "setport0":
				srv.SetPort(0)
			case "settlsport0":
				srv.SetTLSPort(0)
			case "config-port0", "config-tlsport0", "config-port-text":
				args := map[string][]string{"config-port0": {"CONFIG", "SET", "port", "0"}, "config-tlsport0": {"CONFIG", "SET", "tls-port", "0"}, "config-port-text": {"CONFIG", "SET", "port", "off"}}[p.Reconfig]
				if cc, err := net.DialTimeout("tcp", plainAddr, 5*time.Second*sc); err == nil {
					roundTrip(cc, resp.Cmd(args...).Bytes(), 5*time.Second*sc)
					cc.Close()
				}
			}
			close(leave) // some clients disconnect on their own while Stop sweeps the registry
			stopErr := make(chan error, 1)
			go func() { stopErr <- srv.Stop() }()
			var err error
			select {
			case err = <-stopErr:
			case <-time.After(30 * time.Second * sc):
				stopped = true // the cleanup must not call the hanging Stop again
				close(idle)
				return failf("c19|stop-hangs", "%s: Stop did not return within 30s", what)
			}
			if err != nil {
				close(idle)
				idleWg.Wait()
				return failf("c19|stop-error", "%s: Stop returned %v", what, err)
			}
			stopped = true
			close(idle)
			idleWg.Wait()
		}
		if cycles > 1 && cy%(cycles/10+1) == 0 {
			series = append(series, fmt.Sprintf("cycle %d: fds=%d conns=%d goroutines=%d", cy, countFDs(), len(srv.Conns()), len(sched.ServerGoroutines())))
		}
	}
	mu.Lock()
	if len(fails) > 0 {
		f := fails[0]
		mu.Unlock()
		return f
	}
	mu.Unlock()
	// settle: what is judged is the final state
	wantFD, wantG := fd1, 2
	if stopped {
		wantFD, wantG = fd0, 0
	}
	deadline := time.Now().Add(settleBudget * sc)
	for {
		fds, conns, gs := countFDs(), len(srv.Conns()), sched.ServerGoroutines()
		if fds <= wantFD && conns == 0 && len(gs) == wantG {
			return nil
		}
		if time.Now().After(deadline) {
			switch {
			case conns != 0:
				return failf("c19|registry-leak", "%s: %d connections still registered 15s after the churn (series %v)", what, conns, series)
			case len(gs) != wantG:
				extra := ""
				for _, g := range gs {
					if !strings.Contains(g, ".Accept") {
						extra = firstLines(g, 10)
						break
					}
				}
				return failf("c19|goroutine-leak", "%s: %d server goroutines 15s after the churn, baseline %d (series %v); e.g. %s", what, len(gs), wantG, series, extra)
			default:
				return failf("c19|descriptor-leak", "%s: %d open descriptors 15s after the churn, baseline %d (series %v); open: %v", what, fds, wantFD, series, fdTargets())
			}
		}
		time.Sleep(5 * time.Millisecond)
	}
}

func init() {
	register("c19.scripted", evalC19Scripted)
	register("c19.shutdown", evalC19Shutdown)
	register("c19.unread", evalC19Unread)
	register("c19.plan", evalC19Plan)
}

var _ = io.EOF

func TestC19(t *testing.T) {
	h := newHarness(t, "C19", "ending modes {FIN at a request boundary, FIN inside a request at every sampled offset, full close, QUIT with requests pipelined behind it, malformed frame at a random position, write failure after N bytes, rejected certificate} x position in a pipeline on scripted connections "+
		"(exact cut offsets and write failures injected deterministically; Close calls counted), and churn plans on real loopback TCP/TLS: 1..32 connections in flight mixing {FIN, FIN mid-request, RST (linger 0), QUIT, malformed frame, peer that stops reading then resets, "+
		"QUIT / malformed frame with the client keeping its own end open, TLS ok, TLS without certificate, TLS with a rejected name, garbage on the TLS port, idle until Server.Stop, leaving on their own exactly when Stop sweeps, TLS handshake never started until Stop}. A further scenario stops or restarts the server from inside a command (an application executor calling Server.Stop/Restart) with idle bystanders. Oracle: per connection the socket is closed (client sees EOF/reset), the loop returned and the registry entry is gone; per plan, after a settle budget of 15 s (what is judged is the final state), "+
		"the server goroutine count, len(Conns()) and the /proc/self/fd count are back at the values sampled before the plan. A third of the plans that end with Stop first reconfigure a listening port at run time (SetPort(0)/SetTLSPort(0), or CONFIG SET port|tls-port by a client): Stop must still return and release everything. One fixed plan accumulates 90 (thorough: 600) failing TLS handshakes on one server, then well-behaved clients, then Stop. Thorough: up to 10^4 connection endings per plan in repeated cycles. "+
		"Non-trivial: the plan mixes >=3 ending modes with >=4 connections in flight (scripted: an ending other than FIN at a boundary). Distinct = distinct case.")
	defer h.Finish()
	h.Probes()

	if h.Shard == 0 {
		for _, call := range []string{"stop", "restart"} {
			for _, by := range []int{0, 1, 3} {
				for _, before := range []int{0, 2} {
					c := c19Shutdown{Call: call, Bystanders: by, Before: before}
					h.Col.Case(true, []byte(fmt.Sprint("shutdown", c)), "stop-from-inside-a-command")
					h.Report("c19.shutdown", c, evalC19Shutdown(c))
				}
			}
		}
	}

	if h.Shard == 0 {
		slow := c19Unread{SlowCloseMS: 2600}
		h.Col.Case(true, []byte(fmt.Sprint("slowclose", slow)), "slow-close-at-stop")
		h.Report("c19.unread", slow, evalC19Unread(slow))
		for _, cmd := range [][]string{{"QUIT"}, {"PING"}, {"GET", "k"}, {"NOSUCH"}, {"ECHO", strings.Repeat("x", 70000)}} {
			for _, before := range []int{0, 2} {
				c := c19Unread{Cmd: cmd, Before: before}
				h.Col.Case(true, []byte(fmt.Sprint("unread", cmd[0], before)), "reply-unread-at-stop")
				h.Report("c19.unread", c, evalC19Unread(c))
			}
		}
	}

	h.Rapid("scripted", h.N(8000, 300000), func(rt *rapid.T) {
		pc, _ := genPipeline(rt, h.Avoid, 5, false)
		// no QUIT inside: the ending is chosen here
		var reqs [][]*resp.Bin
		for i := range pc.Reqs {
			if pc.cmdName(i) != "QUIT" {
				reqs = append(reqs, pc.Reqs[i])
			}
		}
		c := c19Scripted{Reqs: reqs, Ending: rapid.SampledFrom([]string{"fin", "fin", "fin-full", "quit", "malformed", "write-fail", "tls-rejected"}).Draw(rt, "ending")}
		data, ends := resp.EncodeAll(pipeCase{Reqs: reqs}.values())
		c.Cut = rapid.IntRange(0, len(data)).Draw(rt, "cut")
		if c.Ending == "malformed" && len(ends) > 0 {
			c.Cut = append([]int{0}, ends...)[rapid.IntRange(0, len(ends)).Draw(rt, "boundary")]
		}
		c.WriteFailAfter = rapid.IntRange(0, 64).Draw(rt, "wfa")
		atBoundary := c.Cut == 0
		for _, e := range ends {
			if e == c.Cut {
				atBoundary = true
			}
		}
		h.Col.Case(!(c.Ending == "fin" && atBoundary), []byte(fmt.Sprint(string(data), c.Ending, c.Cut, c.WriteFailAfter)), "scripted:"+c.Ending)
		h.Fail(rt, "c19.scripted", c, evalC19Scripted(c))
	})

	modes := []string{"fin", "fin-mid", "rst", "quit", "malformed", "quit-hold", "malformed-hold", "stop-reading", "tls-ok", "tls-nocert", "tls-wrongname", "tls-garbage", "idle", "idle", "idle-leave", "idle-leave", "idle-tls-stall"}
	nplans := h.N(120, 6000) / h.NShards
	if nplans < 5 {
		nplans = 5
	}
	// state that accumulates over the life of one server: many failing TLS handshakes, then well-behaved clients, then Stop
	{
		churn := c19Plan{InFlight: 2, Stop: true, Cycles: h.N(45, 300) / 1,
			Conns: []c19ConnSpec{{Mode: "tls-garbage"}, {Mode: "tls-nocert"}, {Mode: "tls-ok", Reqs: 1}, {Mode: "fin", Reqs: 1}, {Mode: "idle", Reqs: 1}, {Mode: "idle-tls-stall"}}}
		if h.Shard == h.NShards-1 {
			h.Col.Case(true, []byte(churn.describe()), "handshake-failure-churn")
			h.Report("c19.plan", churn, evalC19Plan(churn))
		}
	}

	h.Rapid("plans", nplans, func(rt *rapid.T) {
		p := c19Plan{InFlight: rapid.SampledFrom([]int{1, 2, 4, 8, 16, 32}).Draw(rt, "inflight"), Stop: rapid.IntRange(0, 2).Draw(rt, "stop") == 0}
		n := rapid.IntRange(1, 24).Draw(rt, "nconns")
		seen := map[string]bool{}
		for i := 0; i < n; i++ {
			m := rapid.SampledFrom(modes).Draw(rt, "mode")
			seen[m] = true
			p.Conns = append(p.Conns, c19ConnSpec{Mode: m, Reqs: rapid.IntRange(0, 3).Draw(rt, "reqs")})
		}
		if h.Thorough() && rapid.IntRange(0, 9).Draw(rt, "long") == 0 {
			p.Cycles = rapid.IntRange(50, 400).Draw(rt, "cycles")
		}
		if p.Stop && rapid.IntRange(0, 2).Draw(rt, "reconf") == 0 {
			p.Reconfig = rapid.SampledFrom([]string{"setport0", "settlsport0", "config-port0", "config-tlsport0", "config-port-text"}).Draw(rt, "reconfig")
			p.Conns = append(p.Conns, c19ConnSpec{Mode: "idle", Reqs: 1}, c19ConnSpec{Mode: "idle-tls-stall"})
		}
		h.Col.Case(len(seen) >= 3 && p.InFlight >= 4 && n >= 4, []byte(p.describe()), "plan")
		if h.Col.WantSample() {
			h.Col.Sample(p)
		}
		h.Fail(rt, "c19.plan", p, evalC19Plan(p))
	})
}
