package props

import (
	"crypto/tls"
	"fmt"
	"net"
	"strings"
	"testing"
	"time"
	"unicode"

	"github.com/cybergarage/go-redis/redis"
	"pgregory.net/rapid"

	"verif/internal/connsim"
	"verif/internal/resp"
	"verif/internal/sched"
)

// ---- C08: password gate ----

type c08Step struct {
	Conn int         `json:"conn"`
	Req  []*resp.Bin `json:"req"`
}

type c08Case struct {
	Password string    `json:"password"`
	Conns    int       `json:"conns"`
	Steps    []c08Step `json:"steps"`
	TLS      bool      `json:"tls,omitempty"` // the connections are TLS connections (served with a TLS state, no certificate rule configured)
	// Prev: the server ran with this password before; it was then reconfigured (SetRequirePass) and restarted with Password
	Prev string `json:"prev,omitempty"`
	// DuringStop: the steps are issued while Server.Stop is in progress (listeners closed, connections not yet swept)
	DuringStop bool `json:"during_stop,omitempty"`
	// StartAgain: the server listens on a real port and Start is called a second time on the running server (it fails)
	StartAgain bool `json:"start_again,omitempty"`
}

// tlsServed serves scripted connections the way the TLS listener's connections are served after their handshake.
type tlsServed struct{ *redis.Server }

func (s tlsServed) VerifServeConn(c net.Conn) error {
	return s.Server.VerifServeTLSConn(c, &tls.ConnectionState{HandshakeComplete: true})
}

func reqValue(r []*resp.Bin) resp.Value {
	v := resp.Value{Kind: resp.Array}
	for _, a := range r {
		if a == nil {
			v.Elems = append(v.Elems, resp.Nil())
		} else {
			v.Elems = append(v.Elems, resp.BB(*a))
		}
	}
	return v
}

func reqPtrString(r []*resp.Bin) string {
	var parts []string
	for _, a := range r {
		if a == nil {
			parts = append(parts, "<null>")
		} else {
			parts = append(parts, fmt.Sprintf("%q", string(*a)))
		}
	}
	return strings.Join(parts, " ")
}

func (c c08Case) describe() string {
	var parts []string
	for _, s := range c.Steps {
		parts = append(parts, fmt.Sprintf("c%d: %s", s.Conn, reqPtrString(s.Req)))
	}
	return fmt.Sprintf("password %q; %s", c.Password, strings.Join(parts, " | "))
}

func evalC08(c c08Case) *Failure {
	srv, rec := newRecServer()
	srv.SetPort(0)
	if c.Prev != "" {
		srv.SetRequirePass(c.Prev)
		if err := srv.Start(); err != nil {
			return failf("harness|start", "Start: %v", err)
		}
		srv.Stop()
	}
	srv.SetRequirePass(c.Password)
	if c.StartAgain {
		if _, _, err := startOnFreePorts(srv, false); err != nil {
			return failf("harness|start", "Start: %v", err)
		}
		srv.Start() // on the running server: an error, and no change to the gate
	} else if err := srv.Start(); err != nil { // Start installs the password authenticator - the genuine configuration path
		return failf("harness|start", "Start: %v", err)
	}
	stopRelease := func() {}
	defer func() {
		stopRelease()
		done := make(chan struct{})
		go func() { srv.Stop(); close(done) }()
		select {
		case <-done:
		case <-time.After(5 * time.Second): // a Stop that hangs is C15's business; the verdict of this case stands
		}
	}()
	var served connsim.Server = srv
	if c.TLS {
		served = tlsServed{srv}
	}
	m, err := connsim.NewMulti(served, c.Conns, serveTimeout())
	if err != nil {
		return failf("harness|multi", "opening connections: %v", err)
	}
	defer m.CloseAll()
	what := c.describe()
	if c.TLS {
		what = "TLS connections; " + what
	}
	if c.Prev != "" {
		what = fmt.Sprintf("password changed from %q and the server restarted; ", c.Prev) + what
	}
	if c.StartAgain {
		what = "Start called again on the running server; " + what
	}
	if c.DuringStop {
		// park Stop between closing the listeners and sweeping the connections: the connections are still served
		lifecycleMu.Lock()
		ts := sched.NewTurnstile()
		redis.VerifSetPointHook(ts.Hook)
		ts.Arm("stop.mid", 1)
		stopDone := make(chan struct{})
		go func() { srv.Stop(); close(stopDone) }()
		parked, err := ts.WaitParked("stop.mid", stepTimeout)
		released := false
		stopRelease = func() {
			if !released {
				released = true
				ts.ReleaseAll()
				select {
				case <-stopDone:
				case <-time.After(serveTimeout()):
				}
				redis.VerifSetPointHook(nil)
				lifecycleMu.Unlock()
			}
		}
		if err != nil {
			stopRelease()
			return failf("harness|sched", "%v", err)
		}
		_ = parked
		what = "while Stop is between closing the listeners and sweeping the connections; " + what
	}
	authed := make([]bool, c.Conns)
	db := make([]int, c.Conns)
	for si, st := range c.Steps {
		before := len(rec.Snapshot())
		frames, alive, err := m.Step(st.Conn, reqValue(st.Req).Bytes())
		if err != nil {
			return stallFailure("c08", what)
		}
		if o := m.Outcome(st.Conn); o != nil && o.Panic != nil {
			return failf("c08|panic|"+panicKey(*o), "%s: step %d panicked: %v", what, si, o.Panic)
		}
		if !alive || len(frames) != 1 {
			return failf("c08|reply-count", "%s: step %d got %d replies (connection alive: %v)", what, si, len(frames), alive)
		}
		reply := frames[0]
		newCalls := rec.Snapshot()[before:]
		name := ""
		if len(st.Req) > 0 && st.Req[0] != nil {
			name = strings.ToUpper(string(*st.Req[0]))
		}
		stepDesc := fmt.Sprintf("step %d (c%d: %s) answered %s", si, st.Conn, reqPtrString(st.Req), reply)
		if name == "AUTH" {
			if len(newCalls) > 0 {
				return failf("c08|auth-reached-handler", "%s: %s and invoked the command handler", what, stepDesc)
			}
			exact := false   // carries exactly the password, in a form that must succeed
			allowed := false // may succeed
			switch len(st.Req) {
			case 2:
				exact = st.Req[1] != nil && string(*st.Req[1]) == c.Password
				allowed = exact
			case 3:
				if st.Req[1] != nil && st.Req[2] != nil && string(*st.Req[2]) == c.Password {
					u := string(*st.Req[1])
					// an empty or "default" user name with the right password: either outcome is acceptable; any other user name must be refused
					allowed = u == "" || u == "default"
				}
			}
			ok := reply.Equal(resp.S("OK"))
			switch {
			case ok && !allowed:
				return failf("c08|auth-accepted", "%s: %s although it does not carry exactly the configured password", what, stepDesc)
			case !ok && exact:
				return failf("c08|auth-refused", "%s: %s although it carries exactly the configured password", what, stepDesc)
			case !ok && !reply.IsError():
				return failf("c08|auth-reply", "%s: %s (neither OK nor an error)", what, stepDesc)
			}
			if ok {
				authed[st.Conn] = true
			}
			continue
		}
		if !authed[st.Conn] {
			if len(newCalls) > 0 {
				return failf("c08|executed-unauthorized", "%s: %s: the handler was invoked (%s) on a connection that has not presented the password", what, stepDesc, callStr(newCalls[0]))
			}
			if !reply.IsError() {
				return failf("c08|answered-unauthorized", "%s: %s on a connection that has not presented the password", what, stepDesc)
			}
			continue
		}
		// authorized connection: the command runs normally
		switch name {
		case "GET", "SET", "INCR":
			if len(newCalls) == 0 {
				return failf("c08|refused-authorized", "%s: %s: no handler call although the connection had presented the password", what, stepDesc)
			}
			for _, cl := range newCalls {
				if cl.ConnID != st.Conn || !cl.Auth || cl.DB != db[st.Conn] {
					return failf("c08|wrong-conn-state", "%s: %s: handler call %s saw conn=%d auth=%v db=%d, expected conn=%d auth=true db=%d", what, stepDesc, callStr(cl), cl.ConnID, cl.Auth, cl.DB, st.Conn, db[st.Conn])
				}
			}
		case "SELECT":
			if reply.Equal(resp.S("OK")) && len(st.Req) == 2 && st.Req[1] != nil {
				fmt.Sscan(string(*st.Req[1]), &db[st.Conn])
			}
		case "PING", "ECHO", "CONFIG":
			if reply.IsError() {
				return failf("c08|refused-authorized", "%s: %s although the connection had presented the password", what, stepDesc)
			}
		}
	}
	return nil
}

func init() { register("c08.seq", evalC08) }

func swapCase(s string) string {
	return strings.Map(func(r rune) rune {
		if unicode.IsUpper(r) {
			return unicode.ToLower(r)
		}
		return unicode.ToUpper(r)
	}, s)
}

func bp(s string) *resp.Bin { b := resp.Bin(s); return &b }

// c08Alphabet builds the request alphabet around password p. full=false gives the reduced alphabet used for multi-connection enumeration.
func c08Alphabet(p string, full bool) [][]*resp.Bin {
	A := func(args ...*resp.Bin) []*resp.Bin { return append([]*resp.Bin{bp("AUTH")}, args...) }
	var out [][]*resp.Bin
	cands := []*resp.Bin{bp(""), nil, bp(p[:1]), bp(p[:len(p)-1]), bp(p + "x"), bp(swapCase(p)), bp(p[:1] + "\x00" + p[1:]), bp(p + "\r\n"), bp(" " + p)}
	if !full {
		cands = []*resp.Bin{bp(""), bp(p[:len(p)-1]), bp(p + "x")}
	}
	for _, c := range cands {
		out = append(out, A(c))
	}
	out = append(out, A(bp(p)))
	users := []string{"", "default", "x"}
	pws := []string{p, "nope", ""}
	if !full {
		users = []string{"x"}
		pws = []string{p}
	}
	for _, u := range users {
		for _, w := range pws {
			out = append(out, A(bp(u), bp(w)))
		}
	}
	out = append(out, A())
	if full {
		// the password split into a user name and a password; a null where the second argument is expected
		out = append(out, A(bp(p[:1]), bp(p[1:])), A(bp(p[:len(p)-1]), bp(p[len(p)-1:])), A(bp(p), nil), A(nil, bp(p)), A(bp(p), bp(p)))
		// candidates that consist of white space only
		out = append(out, A(bp(" ")), A(bp("\t")), A(bp("\r\n")), A(bp(" "), bp(" ")), A(bp(""), bp("\r\n")))
	}
	out = append(out, []*resp.Bin{bp("GET"), bp("k")}, []*resp.Bin{bp("SELECT"), bp("3")})
	if full {
		out = append(out, []*resp.Bin{bp("SET"), bp("k"), bp("v")}, []*resp.Bin{bp("PING")}, []*resp.Bin{bp("ECHO"), bp("x")},
			[]*resp.Bin{bp("CONFIG"), bp("GET"), bp("verif-a")}, []*resp.Bin{bp("INCR"), bp("k")}, []*resp.Bin{bp("FOO"), bp("k")}, []*resp.Bin{bp("auth"), bp(p)})
	}
	return out
}

func TestC08(t *testing.T) {
	h := newHarness(t, "C08", "server configured through SetRequirePass+Start; request alphabet = AUTH with every candidate of a dictionary built around the password ('' , null bulk, strict prefixes, password+suffix, case-swapped, embedded NUL, trailing CRLF, leading space, the password), "+
		"two-argument AUTH with user names '' / default / x and right/wrong/empty passwords, the password split into user name + remainder, a null bulk as first or second of two arguments, candidates of white space only, AUTH without argument, and non-AUTH commands (GET, SET, SELECT, PING, ECHO, CONFIG GET, INCR, an unknown command). "+
		"EXHAUSTIVE: all sequences of length <=3 (thorough: length <=4, and length <=3 at 2 more passwords) on one connection; all interleavings of two connections with <=2 requests each over a reduced alphabet; all sequences of length <=2 on a TLS connection (served with a TLS state); random: 1..3 connections, plain or TLS, up to 8 requests each, random interleavings, 5 passwords. "+
		"Oracle: per-connection authorization model; any handler call or non-error reply to a non-AUTH command on a connection whose model state is unauthorized, +OK to an AUTH not carrying exactly the password, or a refused exact AUTH is a violation. "+
		"Non-trivial: a wrong AUTH candidate followed by a non-AUTH command on the same connection, or >=2 connections in different states. Distinct = distinct (password, sequence).")
	defer h.Finish()
	h.Probes()

	nontrivial := func(c c08Case) bool {
		wrongSeen := make([]bool, c.Conns)
		authed := make([]bool, c.Conns)
		nt := false
		for _, s := range c.Steps {
			isAuth := s.Req[0] != nil && strings.EqualFold(string(*s.Req[0]), "AUTH")
			if isAuth {
				if len(s.Req) == 2 && s.Req[1] != nil && string(*s.Req[1]) == c.Password {
					authed[s.Conn] = true
				} else {
					wrongSeen[s.Conn] = true
				}
			} else if wrongSeen[s.Conn] {
				nt = true
			}
			for i := range authed {
				if authed[i] != authed[s.Conn] {
					nt = true
				}
			}
		}
		return nt
	}
	run := func(c c08Case, class string) bool {
		h.Col.Case(nontrivial(c), []byte(fmt.Sprint(c.TLS, c.Prev, c.DuringStop, c.StartAgain, c.describe())), class)
		if h.Col.WantSample() {
			h.Col.Sample(map[string]any{"case": c.describe(), "class": class})
		}
		return h.Report("c08.seq", c, evalC08(c))
	}

	passwords := []string{"sesame"}
	if h.Thorough() {
		passwords = []string{"sesame", "Pa ss", "p\x00wörd"}
	}
	n := 0
	complete := true
	for _, pw := range passwords {
		alpha := c08Alphabet(pw, true)
		var rec func(prefix []c08Step)
		rec = func(prefix []c08Step) {
			if !complete {
				return
			}
			if len(prefix) > 0 {
				n++
				if n%h.NShards == h.Shard {
					if !run(c08Case{Password: pw, Conns: 1, Steps: append([]c08Step{}, prefix...)}, "exhaustive-1conn") {
						complete = false
						return
					}
				}
			}
			maxLen := 3
			if h.Thorough() && pw == "sesame" {
				maxLen = 4
			}
			if len(prefix) == maxLen {
				return
			}
			for _, r := range alpha {
				rec(append(prefix[:len(prefix):len(prefix)], c08Step{Conn: 0, Req: r}))
			}
		}
		rec(nil)
	}
	h.Col.Exhaustive("all request sequences of length<=3 (thorough: <=4) on one connection over the full alphabet", complete)

	// the same gate on TLS connections: all sequences of length <= 2
	{
		alpha := c08Alphabet("sesame", true)
		complete := true
	tls:
		for _, r1 := range alpha {
			n++
			if n%h.NShards != h.Shard {
				continue
			}
			if !run(c08Case{Password: "sesame", Conns: 1, TLS: true, Steps: []c08Step{{Conn: 0, Req: r1}}}, "exhaustive-tls") {
				complete = false
				break tls
			}
			for _, r2 := range alpha {
				if !run(c08Case{Password: "sesame", Conns: 1, TLS: true, Steps: []c08Step{{Conn: 0, Req: r1}, {Conn: 0, Req: r2}}}, "exhaustive-tls") {
					complete = false
					break tls
				}
			}
		}
		h.Col.Exhaustive("all request sequences of length<=2 on one TLS connection over the full alphabet", complete)
	}

	// two connections, <=2 requests each, all interleavings, reduced alphabet
	small := c08Alphabet("sesame", false)
	orders := [][]int{{0, 0, 1, 1}, {0, 1, 0, 1}, {0, 1, 1, 0}, {1, 0, 0, 1}, {1, 0, 1, 0}, {1, 1, 0, 0}}
	complete = true
twoconn:
	for a1 := range small {
		for a2 := range small {
			for b1 := range small {
				for b2 := range small {
					n++
					if n%h.NShards != h.Shard {
						continue
					}
					reqs := [2][]int{{a1, a2}, {b1, b2}}
					for _, ord := range orders {
						pos := [2]int{}
						c := c08Case{Password: "sesame", Conns: 2}
						for _, who := range ord {
							c.Steps = append(c.Steps, c08Step{Conn: who, Req: small[reqs[who][pos[who]]]})
							pos[who]++
						}
						if !run(c, "exhaustive-2conn") {
							complete = false
							break twoconn
						}
					}
				}
			}
		}
	}
	h.Col.Exhaustive("all interleavings of two connections with 2 requests each over the reduced alphabet", complete)

	rndPasswords := []string{"sesame", "Pa ss", "p\x00wörd", "x", "CaseSensitive", "secret\n", "line\r\n", " lead", "trail "}
	h.Rapid("random", h.N(4000, 200000), func(rt *rapid.T) {
		pw := rapid.SampledFrom(rndPasswords).Draw(rt, "pw")
		alpha := c08Alphabet(pw, len(pw) > 1)
		if len(pw) == 1 {
			alpha = append(alpha, []*resp.Bin{bp("AUTH"), bp(pw)})
		}
		c := c08Case{Password: pw, Conns: rapid.IntRange(1, 3).Draw(rt, "conns"), TLS: rapid.IntRange(0, 3).Draw(rt, "tls") == 0}
		switch rapid.IntRange(0, 7).Draw(rt, "env") {
		case 0:
			c.Prev = rapid.SampledFrom([]string{"old-password", pw + "x", pw[:1]}).Draw(rt, "prev")
		case 1:
			c.DuringStop = true
		case 2:
			c.StartAgain = true
		}
		steps := rapid.IntRange(1, 8*c.Conns).Draw(rt, "steps")
		for i := 0; i < steps; i++ {
			c.Steps = append(c.Steps, c08Step{Conn: rapid.IntRange(0, c.Conns-1).Draw(rt, "who"), Req: alpha[rapid.IntRange(0, len(alpha)-1).Draw(rt, "req")]})
		}
		h.Col.Case(nontrivial(c), []byte(fmt.Sprint(c.TLS, c.Prev, c.DuringStop, c.StartAgain, c.describe())), fmt.Sprintf("random-%dconn", c.Conns))
		h.Fail(rt, "c08.seq", c, evalC08(c))
	})
}
