package props

import (
	"crypto/tls"
	"fmt"
	"net"
	"strconv"
	"strings"
	"testing"
	"time"

	"pgregory.net/rapid"

	"github.com/cybergarage/go-redis/redis/auth"
	"github.com/cybergarage/go-tracing/tracer"

	"verif/internal/connsim"
	"verif/internal/doubles"
	"verif/internal/resp"
	"verif/internal/sched"
)

// ---- C20: tracing spans are balanced for every request outcome ----

func evalC20(c pipeCase) *Failure {
	srv, rec := newRecServer()
	log := &connsim.Log{}
	rec.Log = log
	rec.ResultFn = c.resultFn()
	tr := doubles.NewTracer(log)
	srv.SetTracer(tr)
	if c.Password != "" && c.CertRule {
		srv.AddAuthenticator(auth.NewCertificateAuthenticatorWith(auth.WithCommonName("verif-client")))
	}
	if c.Password != "" {
		srv.SetPort(0)
		srv.SetRequirePass(c.Password)
		if err := srv.Start(); err != nil {
			return failf("harness|start", "Start: %v", err)
		}
		defer srv.Stop()
	} else {
		srv.SetAuthCommandHandler(rec)
	}
	vals := c.values()
	data, _ := resp.EncodeAll(vals)
	if c.Cut > 0 && c.Cut < len(data) {
		data = data[:c.Cut]
	}
	conn := connsim.NewPreloaded(1, connsim.Chunks(data, c.Sizes))
	conn.Log = log
	if c.WriteFailAfter != nil {
		conn.WriteFailAfter = *c.WriteFailAfter
	}
	o := connsim.Serve(srv, conn, serveTimeout())
	what := fmt.Sprintf("pipeline %v cut %d password %q", c.strings(), c.Cut, c.Password)
	if len(c.Odd) > 0 {
		what += fmt.Sprintf(" with %v sent before requests %v", c.Odd, c.OddPos)
	}
	if o.TimedOut {
		return stallFailure("c20", what)
	}
	if o.Panic != nil {
		return failf("c20|panic|"+panicKey(o), "%s: panic: %v", what, o.Panic)
	}
	return c20Analyze(what, log, tr, conn.Out())
}

// c20Analyze checks the span forest recorded for ONE connection against the event log.
func c20Analyze(what string, log *connsim.Log, tr *doubles.Tracer, output []byte) *Failure {
	events := log.Snapshot()
	spans := tr.Snapshot()
	byID := map[int]doubles.Span{}
	for _, s := range spans {
		byID[s.ID] = s
	}
	lastSeq := len(events)
	// every span finished exactly once; children nested in their parents
	for _, s := range spans {
		if len(s.Finishes) == 0 {
			return failf("c20|unfinished|"+spanKind(s), "%s: span %q (#%d) was started and never finished", what, s.Name, s.ID)
		}
		if len(s.Finishes) > 1 {
			return failf("c20|finished-twice|"+spanKind(s), "%s: span %q (#%d) was finished %d times", what, s.Name, s.ID, len(s.Finishes))
		}
		if s.Parent != 0 {
			p, ok := byID[s.Parent]
			if !ok {
				return failf("c20|orphan", "%s: span %q has unknown parent", what, s.Name)
			}
			if s.StartSeq < p.StartSeq || (len(p.Finishes) > 0 && s.Finishes[0] > p.Finishes[0]) {
				return failf("c20|nesting|"+spanKind(s), "%s: span %q [%d,%d] is not nested in its parent %q [%d,%v]", what, s.Name, s.StartSeq, s.Finishes[0], p.Name, p.StartSeq, p.Finishes)
			}
		}
	}
	// roots do not overlap; every write and handler call lies inside exactly one root; one reply write per root
	var roots []doubles.Span
	for _, s := range spans {
		if s.Parent == 0 {
			roots = append(roots, s)
		}
	}
	for i := 1; i < len(roots); i++ {
		if roots[i].StartSeq < roots[i-1].Finishes[0] {
			return failf("c20|roots-overlap", "%s: root span #%d started before root span #%d was finished", what, roots[i].ID, roots[i-1].ID)
		}
	}
	// siblings under one parent do not overlap either (the context is a stack)
	lastChildEnd := map[int]int{}
	for _, s := range spans {
		if s.Parent == 0 {
			continue
		}
		if end, ok := lastChildEnd[s.Parent]; ok && s.StartSeq < end {
			return failf("c20|siblings-overlap", "%s: span %q started before its preceding sibling was finished", what, s.Name)
		}
		lastChildEnd[s.Parent] = s.Finishes[0]
	}
	rootOf := func(seq int) int {
		n, id := 0, 0
		for _, r := range roots {
			if r.StartSeq < seq && seq < r.Finishes[0] {
				n++
				id = r.ID
			}
		}
		if n != 1 {
			return -n
		}
		return id
	}
	// replies are written one frame per write by this server; tie frames to roots through the write events
	framesInRoot := map[int]int{}
	out := 0
	frameEnds := map[int]bool{}
	if _, ends, _ := resp.DecodeAll(output); true {
		for _, e := range ends {
			frameEnds[e] = true
		}
	}
	for _, e := range events {
		switch e.Kind {
		case "write", "write-fail":
			r := rootOf(e.Seq)
			if r <= 0 {
				return failf("c20|outside-root|write", "%s: a reply was written outside a root span (event %d)", what, e.Seq)
			}
			out += e.N
			if frameEnds[out] {
				framesInRoot[r]++
			}
		case "call":
			if r := rootOf(e.Seq); r <= 0 {
				return failf("c20|outside-root|call", "%s: handler call %s was made outside a root span", what, e.Data)
			}
		}
	}
	for r, n := range framesInRoot {
		if n > 1 {
			return failf("c20|root-shared", "%s: root span #%d covers %d replies; every request must have its own root", what, r, n)
		}
	}
	_ = lastSeq
	return nil
}

func spanKind(s doubles.Span) string {
	if s.Parent == 0 {
		return "root"
	}
	switch s.Name {
	case "parse", "response":
		return s.Name
	}
	return "command"
}

// c20Stop: the SERVER ends the connection (Stop while the connection is registered): waiting for its next request,
// or parked inside a handler operation of a command.
type c20Stop struct {
	Reqs  [][]string `json:"reqs"`   // requests answered before Stop
	InCmd []string   `json:"in_cmd"` // if set: this command is in progress (parked in its first handler call) when Stop is called
	// Swap: instead of Stop, the tracer is replaced at run time while the connection waits for its next request
	// ("null": by the null tracer, "other": by a second recording tracer); After are the requests sent afterwards,
	// then the client ends the stream. Every span the first tracer has started must still be finished exactly once.
	Swap  string     `json:"swap,omitempty"`
	After [][]string `json:"after,omitempty"`
}

func evalC20Stop(c c20Stop) *Failure {
	srv, rec := newRecServer()
	log := &connsim.Log{}
	rec.Log = log
	tr := doubles.NewTracer(log)
	srv.SetTracer(tr)
	srv.SetAuthCommandHandler(rec)
	srv.SetPort(0)
	if err := srv.Start(); err != nil {
		return failf("harness|start", "Start: %v", err)
	}
	what := fmt.Sprintf("requests %v, then Stop while the connection is registered (command in progress: %v)", c.Reqs, c.InCmd)
	parked, release := make(chan struct{}), make(chan struct{})
	armed := false
	rec.Gate = func(cl *doubles.Call) {
		if armed {
			armed = false
			close(parked)
			<-release
		}
	}
	conn := connsim.NewGated(0)
	conn.Log = log
	done := connsim.Go(srv, conn)
	if idle, _ := conn.WaitIdle(nil, serveTimeout()); !idle {
		srv.Stop()
		return failf("harness|idle", "the connection did not become idle")
	}
	for _, r := range c.Reqs {
		conn.Feed(resp.Cmd(r...).Bytes())
		if idle, to := conn.WaitIdle(nil, serveTimeout()); !idle || to {
			srv.Stop()
			return stallFailure("c20", what)
		}
	}
	if len(c.InCmd) > 0 {
		armed = true
		conn.Feed(resp.Cmd(c.InCmd...).Bytes())
		select {
		case <-parked:
		case <-time.After(serveTimeout()):
			srv.Stop()
			return failf("harness|gate", "%v made no handler call", c.InCmd)
		}
	}
	if c.Swap != "" {
		what = fmt.Sprintf("requests %v, then the tracer is replaced (%s) while the connection is idle, then requests %v and end of stream", c.Reqs, c.Swap, c.After)
		if c.Swap == "null" {
			srv.SetTracer(tracer.NullTracer)
		} else {
			srv.SetTracer(doubles.NewTracer(&connsim.Log{}))
		}
		for _, r := range c.After {
			conn.Feed(resp.Cmd(r...).Bytes())
			if idle, to := conn.WaitIdle(nil, serveTimeout()); !idle || to {
				srv.Stop()
				return stallFailure("c20", what)
			}
		}
		conn.CloseRead(false)
		select {
		case o := <-done:
			if o.Panic != nil {
				srv.Stop()
				return failf("c20|panic|"+panicKey(o), "%s: panic: %v", what, o.Panic)
			}
		case <-time.After(serveTimeout()):
			srv.Stop()
			return stallFailure("c20", what)
		}
		srv.Stop()
		// the first tracer's spans: finished exactly once, nested (writes made after the swap are not in its roots: only the forest is judged)
		for _, sp := range tr.Snapshot() {
			if len(sp.Finishes) == 0 {
				return failf("c20|unfinished|"+spanKind(sp), "%s: span %q (#%d) of the replaced tracer was started and never finished", what, sp.Name, sp.ID)
			}
			if len(sp.Finishes) > 1 {
				return failf("c20|finished-twice|"+spanKind(sp), "%s: span %q (#%d) of the replaced tracer was finished %d times", what, sp.Name, sp.ID, len(sp.Finishes))
			}
		}
		return nil
	}
	stopped := make(chan struct{})
	go func() { srv.Stop(); close(stopped) }()
	deadline := time.Now().Add(5 * time.Second)
	for !conn.Closed() && time.Now().Before(deadline) {
		time.Sleep(time.Millisecond)
	}
	close(release)
	select {
	case <-stopped:
	case <-time.After(serveTimeout()):
		return failf("c20|stop-hangs", "%s: Stop did not return", what)
	}
	select {
	case o := <-done:
		if o.Panic != nil {
			return failf("c20|panic|"+panicKey(o), "%s: panic: %v", what, o.Panic)
		}
	case <-time.After(serveTimeout()):
		return stallFailure("c20", what)
	}
	return c20Analyze(what, log, tr, conn.Out())
}

// c20Forest: the part of the oracle that holds for any number of connections: every span is finished exactly once,
// starts after its parent has started and finishes before its parent finishes.
func c20Forest(what string, tr *doubles.Tracer) *Failure {
	spans := tr.Snapshot()
	byID := map[int]doubles.Span{}
	for _, s := range spans {
		byID[s.ID] = s
	}
	for _, s := range spans {
		if len(s.Finishes) == 0 {
			return failf("c20|unfinished|"+spanKind(s), "%s: span %q (#%d) was started and never finished", what, s.Name, s.ID)
		}
		if len(s.Finishes) > 1 {
			return failf("c20|finished-twice|"+spanKind(s), "%s: span %q (#%d) was finished %d times", what, s.Name, s.ID, len(s.Finishes))
		}
		if s.Parent != 0 {
			p, ok := byID[s.Parent]
			if !ok {
				return failf("c20|orphan", "%s: span %q has unknown parent", what, s.Name)
			}
			if s.StartSeq < p.StartSeq || (len(p.Finishes) > 0 && (s.StartSeq > p.Finishes[0] || s.Finishes[0] > p.Finishes[0])) {
				return failf("c20|nesting|"+spanKind(s), "%s: span %q [%d,%d] is not nested in its parent %q [%d,%v]", what, s.Name, s.StartSeq, s.Finishes[0], p.Name, p.StartSeq, p.Finishes)
			}
		}
	}
	return nil
}

// c20Contend: two connections; A is inside a command (parked in its handler call) while B sends its request, which
// has to wait for A's command to end. Both then finish their pipelines and close.
type c20Contend struct {
	A []string   `json:"a"`
	B [][]string `json:"b"`
}

func evalC20Contend(c c20Contend) *Failure {
	srv, rec := newRecServer()
	log := &connsim.Log{}
	tr := doubles.NewTracer(log)
	srv.SetTracer(tr)
	parked, release := make(chan struct{}), make(chan struct{})
	armed := true
	rec.Gate = func(cl *doubles.Call) {
		if armed && cl.ConnID == 0 {
			armed = false
			close(parked)
			<-release
		}
	}
	what := fmt.Sprintf("connection A inside %v while connection B sends %v", c.A, c.B)
	m, err := connsim.NewMulti(srv, 2, serveTimeout())
	if err != nil {
		return failf("harness|multi", "%v", err)
	}
	m.Conns[0].Feed(resp.Cmd(c.A...).Bytes())
	select {
	case <-parked:
	case <-time.After(serveTimeout()):
		close(release)
		return failf("harness|gate", "%v made no handler call", c.A)
	}
	for _, r := range c.B {
		m.Conns[1].Feed(resp.Cmd(r...).Bytes())
	}
	time.Sleep(2 * time.Millisecond) // let B reach the point where it waits for A (a scheduling aid, never a verdict)
	close(release)
	for i := 0; i < 2; i++ {
		if idle, to := m.Conns[i].WaitIdle(nil, serveTimeout()); !idle || to {
			return stallFailure("c20", what)
		}
	}
	if err := m.CloseAll(); err != nil {
		return stallFailure("c20", what)
	}
	for i := range m.Conns {
		if o := m.Outcome(i); o != nil && o.Panic != nil {
			return failf("c20|panic|"+panicKey(*o), "%s: panic: %v", what, o.Panic)
		}
	}
	return c20Forest(what, tr)
}

// c20TCP: a client on a real socket is answered, then the server is stopped while it is idle.
type c20TCP struct {
	Reqs int  `json:"reqs"`
	TLS  bool `json:"tls"`
}

func evalC20TCP(c c20TCP) *Failure {
	pk := sharedPKI()
	srv, _ := newRecServer()
	tr := doubles.NewTracer(&connsim.Log{})
	srv.SetTracer(tr)
	srv.ServerCert, srv.ServerKey, srv.CACerts = pk.Server.CertPEM, pk.Server.KeyPEM, pk.Root.CertPEM
	port, tlsPort, err := startOnFreePorts(srv, true)
	if err != nil {
		return failf("harness|start", "%v", err)
	}
	what := fmt.Sprintf("a client on a real socket (tls=%v) is answered %d times, then Stop while it is idle", c.TLS, c.Reqs)
	var conn net.Conn
	if c.TLS {
		conn, err = tls.DialWithDialer(&net.Dialer{Timeout: 10 * time.Second}, "tcp", fmt.Sprintf("127.0.0.1:%d", tlsPort), pk.ClientConfig(pk.Client("verif-client", pk.Root, false)))
	} else {
		conn, err = net.DialTimeout("tcp", fmt.Sprintf("127.0.0.1:%d", port), 10*time.Second)
	}
	if err != nil {
		srv.Stop()
		return failf("harness|dial", "%v", err)
	}
	defer conn.Close()
	for i := 0; i < c.Reqs; i++ {
		if _, err := roundTrip(conn, resp.Cmd("PING").Bytes(), 10*time.Second); err != nil {
			srv.Stop()
			return failf("harness|ping", "%v", err)
		}
	}
	deadline := time.Now().Add(5 * time.Second)
	for len(srv.Conns()) < 1 && time.Now().Before(deadline) {
		time.Sleep(time.Millisecond)
	}
	stopped := make(chan struct{})
	go func() { srv.Stop(); close(stopped) }()
	select {
	case <-stopped:
	case <-time.After(20 * time.Second):
		return failf("c20|stop-hangs", "%s: Stop did not return", what)
	}
	if gs := sched.SettleNoServerGoroutines(10 * time.Second); len(gs) > 0 {
		return failf("harness|goroutines", "%s: server goroutines remain", what)
	}
	return c20Forest(what, tr)
}

func init() {
	register("c20.contend", evalC20Contend)
	register("c20.tcp", evalC20TCP)
	register("c20.pipe", evalC20)
	register("c20.stop", evalC20Stop)
}

func TestC20(t *testing.T) {
	h := newHarness(t, "C20", "the pipelines of C03/C10 (every command with valid, invalid, missing and surplus arguments, unknown commands, QUIT, composed commands, scripted handler errors), optionally interspersed with requests that carry no command (status line, integer, bulk, error, empty array, array with a null/integer/nested first element) "+
		"x end of stream at a random byte offset (request boundary or inside a request) x reply writes failing after N bytes (the peer is gone) x optionally a required password (unauthorized requests, AUTH with right/wrong password); plus connections ended by the SERVER (Stop while the connection waits for its next request or is parked inside a handler operation of a command), and the tracer replaced at run time while the connection is idle; two connections of which one has to wait for the other's command; clients on real sockets (plain, TLS) stopped while idle; a tracer double records span start/finish in the same "+
		"sequence-numbered log as handler calls and connection writes. Oracle: spans form a forest, each finished exactly once, children nested in parents, roots and siblings do not overlap, every write/handler call inside exactly one root, at most one reply per root. "+
		"Non-trivial: the pipeline has a request whose outcome is not plain success (argument error, unknown, unauthorized, QUIT, cut, handler error, failed reply write) or a composed command. Distinct = distinct (stream, cut, password, script).")
	defer h.Finish()
	h.Probes()

	if h.Shard == 0 {
		for _, c := range []c20TCP{{Reqs: 1}, {Reqs: 0}, {Reqs: 2, TLS: true}, {Reqs: 0, TLS: true}} {
			h.Col.Case(true, []byte(fmt.Sprint("tcp", c)), "real-socket-stop")
			h.Report("c20.tcp", c, evalC20TCP(c))
		}
	}
	h.Rapid("contention", h.N(60, 2000), func(rt *rapid.T) {
		pool := [][]string{{"PING"}, {"GET", "k"}, {"SET", "k", "v"}, {"INCR", "n"}, {"NOSUCH"}, {"STRLEN", "k"}, {"HLEN", "h"}}
		c := c20Contend{A: rapid.SampledFrom([][]string{{"GET", "k"}, {"INCR", "n"}, {"MSET", "a", "1", "b", "2"}, {"STRLEN", "k"}, {"HLEN", "h"}}).Draw(rt, "a")}
		for i, n := 0, rapid.IntRange(1, 3).Draw(rt, "nb"); i < n; i++ {
			c.B = append(c.B, rapid.SampledFrom(pool).Draw(rt, "b"))
		}
		h.Col.Case(true, []byte(fmt.Sprint("contend", c)), "lock-contention")
		h.Fail(rt, "c20.contend", c, evalC20Contend(c))
	})

	h.Rapid("server-stop", h.N(300, 5000), func(rt *rapid.T) {
		c := c20Stop{}
		pool := [][]string{{"PING"}, {"GET", "k"}, {"SET", "k", "v"}, {"INCR", "n"}, {"NOSUCH"}, {"GET"}, {"MSET", "a", "1", "b", "2"}, {"HLEN", "h"}, {"ECHO", "x"}}
		for i, n := 0, rapid.IntRange(0, 3).Draw(rt, "nreqs"); i < n; i++ {
			c.Reqs = append(c.Reqs, rapid.SampledFrom(pool).Draw(rt, "req"))
		}
		if rapid.IntRange(0, 2).Draw(rt, "swap") == 0 {
			c.Swap = rapid.SampledFrom([]string{"null", "other"}).Draw(rt, "swapto")
			for i, n := 0, rapid.IntRange(0, 2).Draw(rt, "nafter"); i < n; i++ {
				c.After = append(c.After, rapid.SampledFrom(pool).Draw(rt, "after"))
			}
		} else if rapid.Bool().Draw(rt, "incmd") {
			c.InCmd = rapid.SampledFrom([][]string{{"GET", "k"}, {"INCR", "n"}, {"APPEND", "k", "v"}, {"MSET", "a", "1", "b", "2"}, {"STRLEN", "k"}, {"HLEN", "h"}}).Draw(rt, "cmd")
		}
		h.Col.Case(true, []byte(fmt.Sprint("stop", c)), "server-stop")
		h.Fail(rt, "c20.stop", c, evalC20Stop(c))
	})

	h.Rapid("pipelines", h.N(20000, 400000), func(rt *rapid.T) {
		c, labels := genPipeline(rt, h.Avoid, 8, false)
		data, ends := resp.EncodeAll(c.values())
		if rapid.IntRange(0, 2).Draw(rt, "pw") == 0 {
			c.Password = "sesame"
			c.CertRule = rapid.IntRange(0, 2).Draw(rt, "certrule") == 0
			labels["password-required"] = true
			// sprinkle AUTH requests
			k := rapid.IntRange(0, 2).Draw(rt, "nauth")
			for i := 0; i < k; i++ {
				pos := rapid.IntRange(0, len(c.Reqs)).Draw(rt, "authpos")
				pw := rapid.SampledFrom([]string{"sesame", "wrong", "sesame", "sesam"}).Draw(rt, "authpw")
				req := binPtrs([][]byte{[]byte("AUTH"), []byte(pw)})
				c.Reqs = append(c.Reqs[:pos:pos], append([][]*resp.Bin{req}, c.Reqs[pos:]...)...)
			}
			c.Sizes = nil
			data, ends = resp.EncodeAll(c.values())
		}
		if rapid.IntRange(0, 3).Draw(rt, "odd") == 0 {
			// requests that carry no command at all
			for i, k := 0, rapid.IntRange(1, 2).Draw(rt, "nodd"); i < k; i++ {
				c.OddPos = append(c.OddPos, rapid.IntRange(0, len(c.Reqs)).Draw(rt, "oddpos"))
				c.Odd = append(c.Odd, rapid.SampledFrom([]resp.Value{resp.S("PING"), resp.I(1), resp.B("PING"), resp.Nil(), resp.E("ERR x"), resp.A(), resp.A(resp.Nil()), resp.A(resp.I(7), resp.B("x")),
					resp.A(resp.A(resp.B("PING"))), resp.A(resp.A()), resp.A(resp.S("PING"))}).Draw(rt, "oddval"))
			}
			labels["no-command-request"] = true
			c.Sizes = nil
			data, ends = resp.EncodeAll(c.values())
		}
		switch rapid.IntRange(0, 3).Draw(rt, "cutcls") {
		case 0:
			c.Cut = rapid.IntRange(1, len(data)).Draw(rt, "cut")
			labels["cut-anywhere"] = true
		case 1:
			c.Cut = ends[rapid.IntRange(0, len(ends)-1).Draw(rt, "cutreq")]
			labels["cut-at-boundary"] = true
		}
		if rapid.IntRange(0, 4).Draw(rt, "wfail") == 0 {
			n := rapid.IntRange(0, 40).Draw(rt, "wfailafter")
			c.WriteFailAfter = &n
			labels["reply-write-fails"] = true
		}
		nt := labels["reply-write-fails"] || labels["ill-formed"] || labels["unknown-command"] || labels["quit-last"] || labels["quit-not-last"] || labels["handler-error"] || labels["composed-command"] || labels["password-required"] || labels["cut-anywhere"] || labels["no-command-request"]
		var cl []string
		for l := range labels {
			cl = append(cl, l)
		}
		wf := -1
		if c.WriteFailAfter != nil {
			wf = *c.WriteFailAfter
		}
		canon := append(append([]byte{}, data...), []byte(fmt.Sprint(c.CertRule, c.OddPos, c.Sizes, c.ErrCalls, c.NilCalls, c.GetMode, c.Cut, c.Password, wf))...)
		h.Col.Case(nt, canon, cl...)
		if h.Col.WantSample() {
			h.Col.Sample(map[string]any{"requests": c.strings(), "cut": c.Cut, "password": c.Password})
		}
		h.Fail(rt, "c20.pipe", c, evalC20(c))
	})
	_, _ = strconv.Itoa, strings.ToUpper
}
